#!/usr/bin/env python3
"""Prints a markdown table of the committed evidence (quick tier in evidence/, thorough tier copies in evidence-thorough/)."""
import json, glob, os
def row(path):
    e=json.load(open(path)); c=e["coverage"]
    faults={k:v for k,v in c["faults_and_probes"].items() if any(k.startswith(p) for p in ("r.","w.","p.")) and ("fired" in k or "short" in k or k in ("p.nommap","p.tty","p.eintr"))}
    top=", ".join(f"{k}={v}" for k,v in sorted(faults.items())[:6])
    return f"| {e['property_id']} | {e['tier']} | {c['evaluations']:,} | {c['xt_executions']:,} | {c['sim_events']:,} | {c['distinct_nontrivial']:,} | {c['distinct_traces']:,} | {c['runs_per_hour']:,} | {e['wall_s']:.0f} | {top} |"
print("| property | tier | runs | xt executions | simulated events | distinct non-trivial | distinct traces | runs/hour | wall s | faults fired (excerpt) |")
print("|---|---|---|---|---|---|---|---|---|---|")
for d in ("/verif/evidence", "/verif/evidence-thorough"):
    for f in sorted(glob.glob(d+"/*.json")):
        print(row(f))
