#!/bin/bash
# Runs the thorough tier of the given checks one after the other from a private
# copy of the simulator binary (so that rebuilding /verif/sim meanwhile is safe).
cd /verif
./build.sh all > /verif/.build/build.log 2>&1 || { echo "build failed"; exit 2; }
mkdir -p /verif/.build/thorough
cp /verif/.build/target/release/xtsim /verif/.build/thorough/xtsim
for id in "$@"; do
	echo "=== $id $(date +%T)"
	/usr/bin/time -f "$id wall %es" /verif/.build/thorough/xtsim check "$id" --tier thorough 2>&1 | grep -E "^(check|violation|VIOLATION|KNOWN|HARNESS|note|C[0-9]+:|  x|C[0-9]+ wall)" | cut -c1-600
	cp /verif/evidence/$id.json /verif/.build/thorough/$id.thorough.json 2>/dev/null
done
echo "=== done $(date +%T)"
