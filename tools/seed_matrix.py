#!/usr/bin/env python3
"""Applies every confirmed seeded change in /verif/seeded to /repo in turn, runs
the quick tier of the related checks, undoes it, and records the outcome in
seeded/<name>/meta.json and seeded/MATRIX.md. /repo must be clean."""
import json, os, re, subprocess, sys, time

RELATED = {
 "C02": ["C02", "C09"], "C03": ["C03", "C02"], "C04": ["C04", "C18"], "C05": ["C05"], "C07": ["C07", "C02"],
 "C08": ["C08"], "C09": ["C09", "C12"], "C10": ["C10"], "C11": ["C11"], "C12": ["C12", "C09"], "C13": ["C13"],
 "C14": ["C14"], "C15": ["C15"], "C16": ["C16"], "C17": ["C17"], "C18": ["C18", "C04"],
}
EXTRA = {"C03-m2": ["C14", "C03"], "C02-m5": ["C14", "C02"]}
NEEDS = json.load(open("/verif/seeded/needs.json")) if os.path.exists("/verif/seeded/needs.json") else {}

def sh(cmd, **kw):
    return subprocess.run(cmd, shell=True, capture_output=True, text=True, **kw)

def main():
    only = sys.argv[1:]
    if sh("git -C /repo status --porcelain").stdout.strip():
        print("/repo is dirty"); sys.exit(2)
    rows = []
    for name in sorted(os.listdir("/verif/seeded")):
        d = f"/verif/seeded/{name}"
        if not os.path.isfile(f"{d}/patch.diff"): continue
        if only and name not in only: continue
        prop = name.split("-")[0]
        checks = EXTRA.get(name, RELATED[prop] if os.environ.get("MATRIX_RELATED") else RELATED[prop][:1])
        if sh(f"git -C /repo apply {d}/patch.diff").returncode != 0:
            print(name, "patch does not apply"); continue
        results = {}
        try:
            for c in checks:
                t0 = time.time()
                r = sh(f"cd /verif && VERIF_NO_MINIMISE=1 ./check {c} --tier quick")
                classes = sorted(set(re.findall(r"^violation: \[([^\]]+)\]", r.stdout, re.M)))
                results[c] = {"exit": r.returncode, "wall_s": round(time.time()-t0,1), "violation_classes": classes[:8]}
                print(name, c, r.returncode, classes[:3], flush=True)
        finally:
            sh("git -C /repo checkout -- .")
        readme = open(f"{d}/README.md").read() if os.path.exists(f"{d}/README.md") else ""
        meta = {
            "name": name,
            "breaks_property": prop,
            "origin": "independent sub-agent given only the property text and a scratch worktree",
            "needs_to_manifest": NEEDS.get(name, ""),
            "confirmed": "tools/confirm_seed.sh: patch applies to /repo HEAD in a scratch worktree; cargo test --offline: 142 passed; demonstration fails with the patch and passes without it",
            "checks_run": results,
            "caught_by": [c for c, r in results.items() if r["exit"] == 1],
            "summary": readme[:1200],
        }
        json.dump(meta, open(f"{d}/meta.json", "w"), indent=1)
        rows.append((name, prop, meta["caught_by"], {c: r["exit"] for c, r in results.items()}))
    sh("cd /verif && ./build.sh all")  # leave no binary built from a patched tree behind
    # MATRIX.md is always rewritten from every meta.json (also after a partial run)
    with open("/verif/seeded/MATRIX.md", "w") as f:
        f.write("# Seeded changes vs. checks (quick tier)\n\n| seeded change | property | caught by | exit codes |\n|---|---|---|---|\n")
        for name in sorted(os.listdir("/verif/seeded")):
            mp = f"/verif/seeded/{name}/meta.json"
            if not os.path.isfile(mp): continue
            m = json.load(open(mp))
            exits = {c: r["exit"] for c, r in m.get("checks_run", {}).items()}
            f.write(f"| {name} | {m['breaks_property']} | {', '.join(m.get('caught_by', [])) or '**missed**'} | {exits} |\n")

main()
