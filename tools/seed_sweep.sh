#!/bin/bash
# Runs every quick check under several VERIF_SEED values; any VIOLATION / HARNESS line is a false alarm on the unchanged tree.
cd /verif
# Never trust a binary left over from a run against a patched /repo.
./build.sh all > /verif/.build/build.log 2>&1 || { echo "build failed"; exit 2; }
for seed in "$@"; do
	for id in C02 C03 C04 C05 C07 C08 C09 C10 C11 C12 C13 C14 C15 C16 C18; do
		VERIF_SEED=$seed VERIF_NO_MINIMISE=1 /verif/.build/target/release/xtsim check $id --tier quick > /tmp/sweep-$id-$seed.out 2>&1
		rc=$?
		echo "seed=$seed $id rc=$rc $(grep -cE '^VIOLATION|^HARNESS' /tmp/sweep-$id-$seed.out)"
	done
done
