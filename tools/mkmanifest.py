#!/usr/bin/env python3
"""Regenerates /verif/MANIFEST.json from the table below (kept in one place so
the manifest stays valid and in step with what is built)."""
import json, subprocess, sys

BUILT = {
  "C12": dict(level="fault_enumeration", ref="§7 C12",
    technique="deterministic simulation with fault injection: seeded producer/consumer/caller around the real library; fault position enumerated per run",
    text="Seeded simulation of producer and consumer around the real library; for every sampled (input, formats, read schedule) the fault position is enumerated over every input offset / every accepted output byte / every call index, and each execution is compared with its fault-free twin. Evidence, not proof: inputs and schedules are sampled.",
    note="Trusted: the fault-free twin run of xt itself defines the expected bytes; std::io adaptors and the serde crates run real code; the producer/consumer are stubs that obey the Read/Write contracts."),
}

NOT_YET = "check not built yet (work in progress; see DESIGN.md §7 for the planned simulation)"
NA = {
  "C01": "pure function of input bytes and format pair: no schedule, fault, history or interleaving in the statement; deciding it needs independent readers per format and value-level generation (differential/property testing), not simulation. The I/O-shaped part (supply-mode independence) is C02.",
  "C06": "composition of pure translations compared byte-wise; nothing for a scheduler or fault injector to vary. The `xt | xt` pipeline with detection state is simulated under C10.",
}

def main():
    props = [json.loads(l)["id"] for l in open("/verif/properties.jsonl")]
    hook_commits = subprocess.run(["git","-C","/repo","log","--format=%H","--grep=^verif:"],capture_output=True,text=True).stdout.split()
    checks = []
    na = []
    for p in props:
        if p in BUILT:
            b = BUILT[p]
            checks.append({
                "property_id": p,
                "quick_cmd": f"./check {p} --tier quick",
                "thorough_cmd": f"./check {p} --tier thorough",
                "evidence_file": f"/verif/evidence/{p}.json",
                "replay_cmd_template": f"./check {p} --replay {{path}}",
                "engine": "xtsim",
                "level_claimed": {"category": b["level"], "text": b["text"], "design_ref": b["ref"]},
                "level_note": b["note"],
                "technique": b["technique"],
            })
        else:
            na.append({"property_id": p, "reason": NA.get(p, NOT_YET)})
    m = {
        "version": 1,
        "setup_cmd": "./build.sh all",
        "hooks": {
            "guard": "cargo feature `verif` (off by default)",
            "enable": "the simulator crate /verif/sim depends on xt by path with features=[\"verif\"]; process-level checks build /repo's own manifest with the feature off",
            "baseline_off_cmd": "cd /repo && cargo test --workspace --no-fail-fast --offline",
            "source_commits": hook_commits,
            "add_only": True,
        },
        "engines": [{"name": "xtsim", "path": "/verif/sim", "serves_properties": [c["property_id"] for c in checks],
                     "kind_free_text": "deterministic simulator: seeded PRNG drives producer (Read), consumer (Write), caller histories and, for the CLI, an LD_PRELOAD syscall interposer; crash-isolated worker processes; replayable explicit scenarios"}],
        "checks": checks,
        "not_applicable": na,
        "notes": "All checks: exit 0 held / 1 violation (VIOLATION line with replay file) / 2 harness fault. VERIF_SEED selects the base seed (default 20260926).",
    }
    json.dump(m, open("/verif/MANIFEST.json","w"), indent=1)
    print("checks:", [c["property_id"] for c in checks], "na:", [x["property_id"] for x in na])

main()
