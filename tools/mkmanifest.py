#!/usr/bin/env python3
"""Regenerates /verif/MANIFEST.json from the table below (kept in one place so
the manifest stays valid and in step with what is built)."""
import json, subprocess, sys

BUILT = {
  "C12": dict(level="fault_enumeration", ref="§7 C12",
    technique="deterministic simulation with fault injection: seeded producer/consumer/caller around the real library; fault position enumerated per run",
    text="Seeded simulation of producer and consumer around the real library; for every sampled (input, formats, read schedule) the fault position is enumerated over every input offset / every accepted output byte / every call index, and each execution is compared with its fault-free twin. Evidence, not proof: inputs and schedules are sampled.",
    note="Trusted: the fault-free twin run of xt itself defines the expected bytes; std::io adaptors and the serde crates run real code; the producer/consumer are stubs that obey the Read/Write contracts."),
  "C02": dict(level="exploration", ref="§7 C02",
    technique="deterministic simulation: seeded producer read schedules (incl. exhaustive short token sequences) vs slice supply, metamorphic oracle",
    text="Every run executes the same bytes as a slice and through three simulated producers with different read schedules and compares verdicts and bytes. The token-sequence part of the input space is enumerated completely up to a length bound; everything else is seeded sampling. Evidence, not proof.",
    note="Trusted: nothing but xt itself (metamorphic comparison); error texts are not compared. Open finding F4 is attributed by predicate + neutralising transform."),
  "C03": dict(level="exploration", ref="§7 C03",
    technique="deterministic simulation of caller histories (multi-call, mixed formats, stall-at-document read schedules, short writes) with a per-document reference concatenation and an independent framing reader",
    text="Seeded caller histories on one Translator are compared with the concatenation of per-document translations and re-framed by an independent reader. Sampling of histories and schedules; evidence, not proof.",
    note="Trusted: xt's own translation of each document alone (value correctness is not claimed); the harness's own JSON/MessagePack/YAML framing scanners."),
  "C05": dict(level="exploration", ref="§7 C05",
    technique="deterministic simulation: packetised producer, oracle over the recorded read/write event history (lag) and a counting allocator (memory)",
    text="The property is about interaction over time; the simulator records every read and write with a global sequence number and checks the lag bound at every read, plus peak-heap growth between N/4 and N documents. Sampling of streams and packetisations; evidence, not proof.",
    note="Trusted: counting global allocator attribution (harness bookkeeping excluded by guard); per-document output lengths from xt itself."),
  "C08": dict(level="exploration", ref="§7 C08",
    technique="deterministic simulation of caller histories against a TOML output with a two-variable reference model (presented/written) and planted refusable values",
    text="Seeded histories of calls and documents (with planted nulls, oversized integers, non-table roots, second documents) are checked call by call against a small reference model of the TOML output object and the output is re-read with the toml crate and compared with the generator's model value.",
    note="Trusted: the toml crate as the reader of the output; the generator's model values; floats restricted to short exact decimals so that C01's precision question is not re-decided."),
  "C11": dict(level="fault_enumeration", ref="§7 C11",
    technique="deterministic simulation with fault injection: consumer fault at every output byte, syntax defect at every input byte, unrepresentable value at random tree positions; expected reasons probed from the serializer/parser crates",
    text="For each sampled document the writer fault position and the syntax-defect position are enumerated completely; the expected cause text is obtained by driving the target serializer / source parser directly. Documents, formats and supply modes are sampled.",
    note="Trusted: serde_json/serde_yaml/rmp-serde/toml as the source of 'the serializer's own reason'; for MessagePack output that reason omits the io text by design of rmp-serde."),
}

NOT_YET = "check not built yet (work in progress; see DESIGN.md §7 for the planned simulation)"
NA = {
  "C01": "pure function of input bytes and format pair: no schedule, fault, history or interleaving in the statement; deciding it needs independent readers per format and value-level generation (differential/property testing), not simulation. The I/O-shaped part (supply-mode independence) is C02.",
  "C06": "composition of pure translations compared byte-wise; nothing for a scheduler or fault injector to vary. The `xt | xt` pipeline with detection state is simulated under C10.",
}

def main():
    props = [json.loads(l)["id"] for l in open("/verif/properties.jsonl")]
    hook_commits = subprocess.run(["git","-C","/repo","log","--format=%H","--grep=^verif:"],capture_output=True,text=True).stdout.split()
    checks = []
    na = []
    for p in props:
        if p in BUILT:
            b = BUILT[p]
            checks.append({
                "property_id": p,
                "quick_cmd": f"./check {p} --tier quick",
                "thorough_cmd": f"./check {p} --tier thorough",
                "evidence_file": f"/verif/evidence/{p}.json",
                "replay_cmd_template": f"./check {p} --replay {{path}}",
                "engine": "xtsim",
                "level_claimed": {"category": b["level"], "text": b["text"], "design_ref": b["ref"]},
                "level_note": b["note"],
                "technique": b["technique"],
            })
        else:
            na.append({"property_id": p, "reason": NA.get(p, NOT_YET)})
    m = {
        "version": 1,
        "setup_cmd": "./build.sh all",
        "hooks": {
            "guard": "cargo feature `verif` (off by default)",
            "enable": "the simulator crate /verif/sim depends on xt by path with features=[\"verif\"]; process-level checks build /repo's own manifest with the feature off",
            "baseline_off_cmd": "cd /repo && cargo test --workspace --no-fail-fast --offline",
            "source_commits": hook_commits,
            "add_only": True,
        },
        "engines": [{"name": "xtsim", "path": "/verif/sim", "serves_properties": [c["property_id"] for c in checks],
                     "kind_free_text": "deterministic simulator: seeded PRNG drives producer (Read), consumer (Write), caller histories and, for the CLI, an LD_PRELOAD syscall interposer; crash-isolated worker processes; replayable explicit scenarios"}],
        "checks": checks,
        "not_applicable": na,
        "notes": "All checks: exit 0 held / 1 violation (VIOLATION line with replay file) / 2 harness fault. VERIF_SEED selects the base seed (default 20260926).",
    }
    json.dump(m, open("/verif/MANIFEST.json","w"), indent=1)
    print("checks:", [c["property_id"] for c in checks], "na:", [x["property_id"] for x in na])

main()
