#!/usr/bin/env python3
"""Regenerates /verif/MANIFEST.json from the table below (kept in one place so
the manifest stays valid and in step with what is built)."""
import json, subprocess, sys

BUILT = {
  "C12": dict(level="fault_enumeration", ref="§7 C12",
    technique="deterministic simulation with fault injection: seeded producer/consumer/caller around the real library; fault position enumerated per run",
    text="Seeded simulation of producer and consumer around the real library; for every sampled (input, formats, read schedule) the fault position is enumerated over every input offset / every accepted output byte / every call index, and each execution is compared with its fault-free twin. Evidence, not proof: inputs and schedules are sampled.",
    note="Trusted: the fault-free twin run of xt itself defines the expected bytes; std::io adaptors and the serde crates run real code; the producer/consumer are stubs that obey the Read/Write contracts."),
  "C02": dict(level="exploration", ref="§7 C02",
    technique="deterministic simulation: seeded producer read schedules (incl. exhaustive short token sequences) vs slice supply, metamorphic oracle",
    text="Every run executes the same bytes as a slice and through three simulated producers with different read schedules and compares verdicts and bytes. The token-sequence part of the input space is enumerated completely up to a length bound; everything else is seeded sampling. Evidence, not proof.",
    note="Trusted: nothing but xt itself (metamorphic comparison); error texts are not compared. Open finding F4 is attributed by predicate + neutralising transform."),
  "C03": dict(level="exploration", ref="§7 C03",
    technique="deterministic simulation of caller histories (multi-call, mixed formats, stall-at-document read schedules, short writes) with a per-document reference concatenation and an independent framing reader",
    text="Seeded caller histories on one Translator are compared with the concatenation of per-document translations and re-framed by an independent reader. Sampling of histories and schedules; evidence, not proof.",
    note="Trusted: xt's own translation of each document alone (value correctness is not claimed); the harness's own JSON/MessagePack/YAML framing scanners."),
  "C05": dict(level="exploration", ref="§7 C05",
    technique="deterministic simulation: packetised producer, oracle over the recorded read/write event history (lag) and a counting allocator (memory)",
    text="The property is about interaction over time; the simulator records every read and write with a global sequence number and checks the lag bound at every read, plus peak-heap growth between N/4 and N documents. Streams are UTF-8, UTF-8 behind a byte order mark, or UTF-16/32 (YAML), with LF or any other YAML line break. Sampling of streams and packetisations; evidence, not proof.",
    note="Trusted: counting global allocator attribution (harness bookkeeping excluded by guard); per-document output lengths from xt itself."),
  "C08": dict(level="exploration", ref="§7 C08",
    technique="deterministic simulation of caller histories against a TOML output with a two-variable reference model (presented/written) and planted refusable values",
    text="Seeded histories of calls and documents (with planted nulls, oversized integers, non-table roots, second documents) are checked call by call against a small reference model of the TOML output object and the output is re-read with the toml crate and compared with the generator's model value (also for documents holding binary data, which xt may refuse but can never write faithfully).",
    note="Trusted: the toml crate as the reader of the output; the generator's model values; floats restricted to short exact decimals so that C01's precision question is not re-decided."),
  "C11": dict(level="fault_enumeration", ref="§7 C11",
    technique="deterministic simulation with fault injection: consumer fault at every output byte, syntax defect at every input byte, unrepresentable value at random tree positions; expected reasons probed from the serializer/parser crates; 1 run in 10 drives the shipped binary under the syscall interposer and compares its standard-error line with the library's error text",
    text="For each sampled document the writer fault position and the syntax-defect position are enumerated completely; the expected cause text is obtained by driving the target serializer / source parser directly. Documents, formats and supply modes are sampled. The process slice (long diagnostics, injected ENOSPC/EIO on fd 1) is sampling only.",
    note="Trusted: serde_json/serde_yaml/rmp-serde/toml as the source of 'the serializer's own reason'; for MessagePack output that reason omits the io text by design of rmp-serde."),
  "C04": dict(level="exploration", ref="§7 C04",
    technique="deterministic simulation swarm with fault injection (adversarial inputs x read schedules x producer/consumer faults x repeated calls) in crash-isolated workers with a watchdog; global no-panic/no-hang/no-crash invariants",
    text="A seeded swarm drives the real library through adversarial inputs under short reads, injected producer/consumer faults and repeated calls; every call must end in Ok or Err, the worker process must survive (stack overflow/abort are observed, not suffered) and the watchdog must not fire. Every other check enforces the same invariants on all of its runs. Sampling only: evidence, not proof.",
    note="Which bytes crash a parser is better answered by coverage-guided fuzzing; this check adds the I/O and history dimension. Quadratic-but-terminating libyaml scanning of deep flow mappings is kept below the watchdog and not counted as a hang."),
  "C07": dict(level="exploration", ref="§7 C07",
    technique="deterministic simulation of the re-encoder between a short-read producer and a small-buffer consumer against a reference decoder model; whole-translation equivalence of encoded vs UTF-8 text",
    text="The re-encoder (through the verif hook) is driven with code-unit sequences - complete 4096-scalar blocks, every ill-formed class, random unit soup - under producer short reads and consumer buffers down to 1 byte, and compared with a model built on char::decode_utf16/char::from_u32; thorough tier sweeps all 1,112,064 scalars x 4 encodings x BOM x 5 schedule pairs. Whole translations of encode_E(text) are compared with those of the UTF-8 text.",
    note="Trusted: Rust's char::decode_utf16 / char::from_u32 as the reference decoder; the verif hook adds no logic."),
  "C09": dict(level="exploration", ref="§7 C09",
    technique="deterministic simulation: detection vs explicit runs under read schedules and producer faults; bounded-exhaustive + sampled operation programs on the rewindable input handle against a reference model",
    text="Detection's answer (verif hook) is compared with the explicit run it must equal (verdict, bytes and error text), slice/reader agreement and totality are checked under seeded schedules; every program of <= 3 (thorough: 4) handle operations (read, prefix, re-borrow, read_exact, read_to_end) over all data sizes <= 4 and all chunkings is enumerated and checked step by step against the model 'a borrow always sees the stream from offset 0', longer programs (also with transient producer errors) are sampled.",
    note="Trusted: the verif hook wrappers. Open finding F7 (position numbers in error texts after the handle flipped to slice mode) is attributed by predicate + neutralising transform."),
  "C10": dict(level="exploration", ref="§7 C10",
    technique="deterministic simulation of the pipeline `xt -t F | xt`: stage 1's recorded write boundaries are re-chunked by a seeded pipe model into stage 2's read schedule",
    text="Generated collection-rooted documents are translated by stage 1; stage 2 runs with detection (reader with the pipe's schedule, and slice) and must detect F and behave like -f F. One stream in twelve starts with a document of exactly 8192*k output bytes fed back in buffer-sized pieces. The schedule dimension is otherwise thin here (detection is mostly a function of the bytes); sampling of documents dominates.",
    note="Trusted: serde_json / serde_yaml as independent judges for the TOML carve-out."),
  "C18": dict(level="exploration", ref="§7 C18",
    technique="deterministic simulation: depth windows swept completely per run across slice and reader schedules in crash-isolated workers on an 8 MiB stack; process layer runs the real binaries",
    text="Every depth in limit-6..limit+6 for each format and shape is executed as slice and under three reader schedules, verdicts must agree and be monotone; far-beyond depths up to 10^6 must be rejected without killing the worker; MessagePack's 1023/1024 boundary and the slice-mode size calculator are compared with rmp_serde.",
    note="Depth is an input dimension; the simulator contributes supply modes, schedules and crash-isolated observation of the real stack. YAML flow-mapping shapes are limited to depths that libyaml's quadratic scanner finishes within the watchdog."),
  "C13": dict(level="exploration", ref="§7 C13",
    technique="deterministic simulation of the process environment: the real binary under an LD_PRELOAD syscall interposer (tty answer, unreadable/unmappable inputs, short reads/writes) against an executable model of the documented CLI; argv vectors up to 2 tokens enumerated",
    text="Every argument vector of <= 2 tokens over the stated vocabulary is executed against the real debug/release binary and compared with a small model of the command line plus the library's per-input results; longer vectors and environment faults (terminal, EIO, mmap denied) are sampled. The argv dimension is plain enumeration; the simulator contributes the environment and race-free observation of exit status, stdout, stderr and which fds were read.",
    note="Trusted: the 60-line CLI model (lexopt conventions), the interposer returning what the kernel would return, the library as the per-input oracle."),
  "C14": dict(level="exploration", ref="§7 C14",
    technique="deterministic simulation of the process environment: real binary under the syscall interposer (mmap granted/denied, stdin with scheduled short reads) compared with the in-process library for the format resolved by -f / extension / detection",
    text="Seeded combinations of -f, extension spellings (letter case, multi-dot, hidden, misleading), content, supply mode and '-' positions; stdout must equal the library's output and fd 0 must be consumed for at most one input (interposer log).",
    note="Trusted: the re-implemented extension rule from the manual; mmap denial stands in for FIFOs (same code path)."),
  "C15": dict(level="fault_enumeration", ref="§7 C15",
    technique="deterministic simulation with fault injection at process level: the failing input is moved through every position of each drawn input list, with every failure kind of the statement plus injected read errors; oracle over stdout bytes, interposer write log and wait status",
    text="For each sampled input list (sizes below/around/above the 8 KiB stdout buffer) the failing input is enumerated over every position; the complete translations of all earlier inputs must be on stdout when xt exits 1, and all output when it exits 0.",
    note="Trusted: the library's output for the same input sequence as expectation; stdout is a regular file written through the interposer."),
  "C16": dict(level="fault_enumeration", ref="§7 C16",
    technique="deterministic simulation with fault injection at process level: fd 1 starts failing with EPIPE/ENOSPC/EIO after k accepted bytes, k enumerated densely around 0 and the buffer/pipe size boundaries for each drawn workload",
    text="For each sampled workload the point at which the consumer goes away is enumerated (0..64, +-2 around 1 KiB/4 KiB/8 KiB/16 KiB/64 KiB, geometric beyond, and +-1 around the end of every input's output, where xt has just flushed); the interposer answers poll() on fd 1 from the same plan; EPIPE must end in death by SIGPIPE with empty stderr and exactly the first k expected bytes on stdout, other errnos in exit 1 with an 'xt error' message.",
    note="Trusted: the interposer's errno equals what the kernel returns on a closed pipe/full device; fidelity runs with a real closing pipe and /dev/full bound that trust."),
  "C17": dict(level="exploration", ref="§7 C17",
    technique="deterministic simulation with fault injection (short reads, producer error at every offset, over-reporting producer, early drop after every event) executed three times: ordinary build with a per-run leak oracle, AddressSanitizer build, Miri",
    text="Seeded YAML-path scenarios put the unsafe parser binding and the decoders through the error paths, contract violations and early drops that the test suite never takes; the ordinary pass adds a counting-allocator leak oracle and crash isolation, the second pass runs the same indices under AddressSanitizer, the third runs the small ones under Miri (Stacked Borrows, uninitialised memory, leaks).",
    note="Miri and ASan only vouch for the executions they are given; coverage of those executions is sampled. unsafe-libyaml is pure Rust, so Miri sees through it."),
}

NOT_YET = "check not built yet (work in progress; see DESIGN.md §7 for the planned simulation)"
NA = {
  "C01": "pure function of input bytes and format pair: no schedule, fault, history or interleaving in the statement; deciding it needs independent readers per format and value-level generation (differential/property testing), not simulation. The I/O-shaped part (supply-mode independence) is C02.",
  "C06": "composition of pure translations compared byte-wise; nothing for a scheduler or fault injector to vary. The `xt | xt` pipeline with detection state is simulated under C10.",
}

def main():
    props = [json.loads(l)["id"] for l in open("/verif/properties.jsonl")]
    hook_commits = subprocess.run(["git","-C","/repo","log","--format=%H","--grep=^verif:"],capture_output=True,text=True).stdout.split()
    checks = []
    na = []
    for p in props:
        if p in BUILT:
            b = BUILT[p]
            checks.append({
                "property_id": p,
                "quick_cmd": f"./check {p} --tier quick",
                "thorough_cmd": f"./check {p} --tier thorough",
                "evidence_file": f"/verif/evidence/{p}.json",
                "replay_cmd_template": f"./check {p} --replay {{path}}",
                "engine": "xtsim",
                "level_claimed": {"category": b["level"], "text": b["text"], "design_ref": b["ref"]},
                "level_note": b["note"],
                "technique": b["technique"],
            })
        else:
            na.append({"property_id": p, "reason": NA.get(p, NOT_YET)})
    m = {
        "version": 1,
        "setup_cmd": "./build.sh all",
        "hooks": {
            "guard": "cargo feature `verif` (off by default)",
            "enable": "the simulator crate /verif/sim depends on xt by path with features=[\"verif\"]; process-level checks build /repo's own manifest with the feature off",
            "baseline_off_cmd": "cd /repo && cargo test --workspace --no-fail-fast --offline",
            "source_commits": hook_commits,
            "add_only": True,
        },
        "engines": [{"name": "xtsim", "path": "/verif/sim", "serves_properties": [c["property_id"] for c in checks],
                     "kind_free_text": "deterministic simulator: seeded PRNG drives producer (Read), consumer (Write), caller histories and, for the CLI, an LD_PRELOAD syscall interposer; crash-isolated worker processes; replayable explicit scenarios"}],
        "checks": checks,
        "not_applicable": na,
        "notes": "All checks: exit 0 held / 1 violation (VIOLATION line with replay file) / 2 harness fault. VERIF_SEED selects the base seed (default 20260926).",
    }
    json.dump(m, open("/verif/MANIFEST.json","w"), indent=1)
    print("checks:", [c["property_id"] for c in checks], "na:", [x["property_id"] for x in na])

main()
