#!/bin/bash
# tools/selftest.sh determinism [IDs...]
# Validates the machinery itself: every check is run twice per seed, once with
# 16 and once with 3 workers; the sets of (violation class, run index) and all
# evidence counters that do not depend on wall-clock time must be identical.
set -u
cd /verif
mode="${1:-determinism}"; shift || true
ids=("$@"); if [ ${#ids[@]} -eq 0 ]; then ids=(C02 C03 C04 C05 C07 C08 C09 C10 C11 C12 C13 C14 C15 C16 C18); fi
./build.sh all > /verif/.build/build.log 2>&1 || { echo "build failed"; exit 2; }
fail=0
for id in "${ids[@]}"; do
	for seed in 1 7777; do
		for w in 16 3; do
			VERIF_SEED=$seed VERIF_WORKERS=$w VERIF_NO_MINIMISE=1 /verif/.build/target/release/xtsim check "$id" --tier quick > /tmp/selftest-$id-$seed-$w.out 2>&1
			python3 - "$id" > /tmp/selftest-$id-$seed-$w.sig <<'PY'
import json,sys
e=json.load(open(f"/verif/evidence/{sys.argv[1]}.json"))
c=e["coverage"]
sig={k:c[k] for k in ["evaluations","distinct_nontrivial","xt_executions","sim_events","nontrivial_runs","distinct_traces","faults_and_probes","violation_instances","known_findings_hit"]}
print(json.dumps(sig,sort_keys=True))
PY
		done
		if cmp -s /tmp/selftest-$id-$seed-16.sig /tmp/selftest-$id-$seed-3.sig; then
			echo "$id seed=$seed: identical at 16 and 3 workers"
		else
			echo "$id seed=$seed: DIFFERENT"; diff /tmp/selftest-$id-$seed-16.sig /tmp/selftest-$id-$seed-3.sig | head -5; fail=1
		fi
	done
done
exit $fail
