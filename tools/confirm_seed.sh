#!/bin/bash
# tools/confirm_seed.sh <seed-src-dir> <dest-name>
# Confirms in a scratch worktree that a seeded change (a) applies, (b) keeps the
# 142 tests green, (c) makes its demonstration fail, and that the demonstration
# passes without it. On success copies it to /verif/seeded/<dest-name>/.
set -u
SRC="$1"; NAME="$2"
WT=/tmp/wt-confirm-$NAME
export CARGO_NET_OFFLINE=true
export CARGO_TARGET_DIR=/tmp/confirm-target
git -C /repo worktree add -q --detach "$WT" HEAD || exit 2
cleanup() { git -C /repo worktree remove --force "$WT" 2>/dev/null; }
trap cleanup EXIT
cd "$WT"
run_demo() {
	if [ -f "$SRC/demo.rs" ]; then
		cp "$SRC/demo.rs" tests/demo.rs
		cargo test --offline --test demo > /tmp/confirm-$NAME.demo.log 2>&1; rc=$?
		rm -f tests/demo.rs
		return $rc
	else
		env -u CARGO_TARGET_DIR bash "$SRC/demo.sh" "$WT" > /tmp/confirm-$NAME.demo.log 2>&1
	fi
}
if ! git apply "$SRC/patch.diff"; then echo "$NAME: PATCH-DOES-NOT-APPLY"; exit 1; fi
tests=$(cargo test --offline 2>&1 | grep -E '^test result' | awk '{p+=$4; f+=$6} END {print p" passed "f" failed"}')
run_demo; with=$?
git checkout -q -- . ; git clean -fdq
run_demo; without=$?
echo "$NAME: tests_with_patch=[$tests] demo_with_patch_rc=$with demo_without_patch_rc=$without"
if [ "$tests" = "142 passed 0 failed" ] && [ $with -ne 0 ] && [ $without -eq 0 ]; then
	mkdir -p /verif/seeded/$NAME
	cp "$SRC"/patch.diff /verif/seeded/$NAME/
	[ -f "$SRC/demo.rs" ] && cp "$SRC/demo.rs" /verif/seeded/$NAME/
	[ -f "$SRC/demo.sh" ] && cp "$SRC/demo.sh" /verif/seeded/$NAME/
	[ -f "$SRC/README.md" ] && cp "$SRC/README.md" /verif/seeded/$NAME/
	echo "$NAME: CONFIRMED"
else
	echo "$NAME: NOT-CONFIRMED"
fi
