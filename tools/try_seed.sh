#!/bin/bash
# tools/try_seed.sh <patch.diff> <ID> [<ID>...]  - apply a seeded change to /repo, run quick checks, undo.
set -u
PATCH="$1"; shift
cd /verif
git -C /repo diff --quiet || { echo "/repo is dirty"; exit 2; }
git -C /repo apply "$PATCH" || { echo "patch does not apply"; exit 2; }
for id in "$@"; do
	echo "=== $id on $(basename $(dirname $PATCH))"
	./check "$id" --tier quick 2>&1 | grep -E '^(VIOLATION|violation:|KNOWN|HARNESS|C[0-9]+:)' | cut -c1-400 | head -12
	echo "exit=${PIPESTATUS[0]}"
done
git -C /repo checkout -- .
# rebuild so that no binary built from the patched tree is left behind
./build.sh all > /dev/null 2>&1
git -C /repo status --short | head -3
