#!/bin/bash
# Builds everything a check needs, offline, from /repo's working tree.
#   build.sh [ID|all]
set -eu
export CARGO_NET_OFFLINE=true
ID="${1:-all}"
mkdir -p /verif/.build
cd /verif/sim
# Keep the lockfile in step with /repo's (same dependency versions as xt).
if [ ! -f Cargo.lock ]; then cp /repo/Cargo.lock Cargo.lock; fi
(
	flock 9
	cargo build --release --offline 2>&1 | grep -Ev '^\s*(warning|-->|\||=|[0-9]+ \|)' || true
	test -x /verif/.build/target/release/xtsim
	case "$ID" in
	C17|all)
		# Second and third pass of C17: the simulator under AddressSanitizer and under Miri.
		RUSTFLAGS="-Zsanitizer=address" cargo +nightly build --release --offline --target x86_64-unknown-linux-gnu --target-dir /verif/.build/asan-target 2>&1 | grep -Ev '^\s*(warning|-->|\||=|[0-9]+ \|)' | tail -3 || true
		test -x /verif/.build/asan-target/x86_64-unknown-linux-gnu/release/xtsim
		MIRIFLAGS="-Zmiri-disable-isolation" cargo +nightly miri run --offline --target-dir /verif/.build/miri-target -- list > /dev/null 2>&1 || true
		;;
	esac
	case "$ID" in
	C03|C04|C11|C13|C14|C15|C16|C18|all|bins)
		if [ -f /verif/shim/xtsim_io.c ]; then
			# (replaced atomically and only when changed: a check may be running from it)
			gcc -O2 -fPIC -shared -o /verif/.build/libxtsim_io.so.new /verif/shim/xtsim_io.c -ldl || exit 2
			if cmp -s /verif/.build/libxtsim_io.so.new /verif/.build/libxtsim_io.so; then
				rm -f /verif/.build/libxtsim_io.so.new
			else
				mv -f /verif/.build/libxtsim_io.so.new /verif/.build/libxtsim_io.so
			fi
		fi
		# The shipped binaries: /repo's own manifest, guard off.
		(cd /repo && cargo build --offline --locked --target-dir /verif/.build/xt-target 2>&1 | tail -2)
		(cd /repo && cargo build --offline --locked --release --target-dir /verif/.build/xt-target 2>&1 | tail -2)
		test -x /verif/.build/xt-target/debug/xt
		test -x /verif/.build/xt-target/release/xt
		;;
	esac
) 9> /verif/.build/build.lock
