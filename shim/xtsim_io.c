/*
 * xtsim_io.c - LD_PRELOAD interposer that puts the byte transport of selected
 * file descriptors of a child process under the simulator's control.
 *
 * The plan (path in $XTSIM_PLAN) is a text file:
 *
 *   out sched <n> <n> ...        accept at most n bytes per write on fd 1 (list)
 *   out cycle <0|1>              repeat the list / accept everything afterwards
 *   out fail <k> <errno>         once k bytes were accepted every write fails
 *   out eintr <i> <i> ...        write-call indices that fail once with EINTR
 *   tty <0|1>                    isatty(1) answers 1
 *   nommap <0|1>                 file-backed mmap fails with ENODEV
 *   in <path|stdin>              starts an input section (path as seen through
 *                                /proc/self/fd, or the literal word stdin = fd 0)
 *   sched <n> ...                deliver exactly n bytes per read (list)
 *   cycle <0|1>
 *   fail <k> <errno>             once k bytes were delivered every read fails
 *   eintr <i> ...                read-call indices that fail once with EINTR
 *
 * Every intercepted call appends one line to $XTSIM_LOG:
 *   W <asked> <ret> <errno> <total>       write/writev on fd 1
 *   R <fd> <name> <asked> <ret> <errno> <total>
 *   M <fd> <name> <ok|denied>
 *   T <fd> <answer>
 */
#define _GNU_SOURCE
#include <dlfcn.h>
#include <errno.h>
#include <fcntl.h>
#include <limits.h>
#include <poll.h>
#include <signal.h>
#include <time.h>
#include <stdarg.h>
#include <stdio.h>
#include <stdlib.h>
#include <string.h>
#include <sys/mman.h>
#include <sys/types.h>
#include <sys/uio.h>
#include <unistd.h>

#define MAXLIST 65536
#define MAXIN 16

struct sched {
	long *list;
	int n;
	int cycle;
	int pos;
};

struct faults {
	long fail_at; /* -1: none */
	int fail_errno;
	long eintr[64];
	int n_eintr;
	long calls;
	long total;
};

struct input {
	char name[PATH_MAX];
	struct sched s;
	struct faults f;
};

static int initialised;
static int active;
static int log_fd = -1;
static struct sched out_s;
static struct faults out_f = {-1, 0, {0}, 0, 0, 0};
static int plan_tty;
static int plan_nommap;
static struct input inputs[MAXIN];
static int n_inputs;

static ssize_t (*real_write)(int, const void *, size_t);
static ssize_t (*real_read)(int, void *, size_t);
static void *(*real_mmap)(void *, size_t, int, int, int, off_t);
static void *(*real_mmap64)(void *, size_t, int, int, int, off64_t);
static int (*real_isatty)(int);

static void logf_(const char *fmt, ...)
{
	if (log_fd < 0)
		return;
	char buf[PATH_MAX + 128];
	va_list ap;
	va_start(ap, fmt);
	int n = vsnprintf(buf, sizeof buf, fmt, ap);
	va_end(ap);
	if (n > 0)
		real_write(log_fd, buf, (size_t)(n < (int)sizeof buf ? n : (int)sizeof buf - 1));
}

static void add_num(struct sched *s, long v)
{
	if (!s->list)
		s->list = malloc(sizeof(long) * MAXLIST);
	if (s->list && s->n < MAXLIST)
		s->list[s->n++] = v < 1 ? 1 : v;
}

static long sched_next(struct sched *s)
{
	if (s->n == 0)
		return LONG_MAX;
	if (s->pos < s->n)
		return s->list[s->pos++];
	if (s->cycle)
		return s->list[(s->pos++) % s->n];
	return LONG_MAX;
}

static void init(void)
{
	if (initialised)
		return;
	initialised = 1;
	real_write = dlsym(RTLD_NEXT, "write");
	real_read = dlsym(RTLD_NEXT, "read");
	real_mmap = dlsym(RTLD_NEXT, "mmap");
	real_mmap64 = dlsym(RTLD_NEXT, "mmap64");
	real_isatty = dlsym(RTLD_NEXT, "isatty");
	const char *plan = getenv("XTSIM_PLAN");
	const char *logp = getenv("XTSIM_LOG");
	if (!plan)
		return;
	if (logp)
		log_fd = open(logp, O_WRONLY | O_CREAT | O_APPEND | O_CLOEXEC, 0644);
	int fd = open(plan, O_RDONLY | O_CLOEXEC);
	if (fd < 0)
		return;
	size_t cap = 1 << 20, len = 0;
	char *text = malloc(cap);
	if (!text) {
		close(fd);
		return;
	}
	for (;;) {
		if (len + 4096 > cap) {
			cap *= 2;
			char *t2 = realloc(text, cap);
			if (!t2)
				break;
			text = t2;
		}
		ssize_t r = real_read(fd, text + len, cap - len - 1);
		if (r <= 0)
			break;
		len += (size_t)r;
	}
	close(fd);
	text[len] = 0;
	struct sched *cs = NULL;
	struct faults *cf = NULL;
	char *save = NULL;
	for (char *line = strtok_r(text, "\n", &save); line; line = strtok_r(NULL, "\n", &save)) {
		char *sv2 = NULL;
		char *w = strtok_r(line, " ", &sv2);
		if (!w)
			continue;
		int is_out = 0;
		if (!strcmp(w, "out")) {
			is_out = 1;
			cs = &out_s;
			cf = &out_f;
			w = strtok_r(NULL, " ", &sv2);
			if (!w)
				continue;
		}
		if (!strcmp(w, "tty")) {
			char *v = strtok_r(NULL, " ", &sv2);
			plan_tty = v && atoi(v);
		} else if (!strcmp(w, "nommap")) {
			char *v = strtok_r(NULL, " ", &sv2);
			plan_nommap = v && atoi(v);
		} else if (!strcmp(w, "in")) {
			char *v = strtok_r(NULL, "", &sv2);
			if (v && n_inputs < MAXIN) {
				struct input *in = &inputs[n_inputs++];
				memset(in, 0, sizeof *in);
				strncpy(in->name, v, sizeof in->name - 1);
				in->f.fail_at = -1;
				cs = &in->s;
				cf = &in->f;
			}
		} else if (cs && !strcmp(w, "sched")) {
			for (char *v = strtok_r(NULL, " ", &sv2); v; v = strtok_r(NULL, " ", &sv2))
				add_num(cs, atol(v));
		} else if (cs && !strcmp(w, "cycle")) {
			char *v = strtok_r(NULL, " ", &sv2);
			cs->cycle = v && atoi(v);
		} else if (cf && !strcmp(w, "fail")) {
			char *a = strtok_r(NULL, " ", &sv2);
			char *b = strtok_r(NULL, " ", &sv2);
			if (a && b) {
				cf->fail_at = atol(a);
				cf->fail_errno = atoi(b);
			}
		} else if (cf && !strcmp(w, "eintr")) {
			for (char *v = strtok_r(NULL, " ", &sv2); v && cf->n_eintr < 64; v = strtok_r(NULL, " ", &sv2))
				cf->eintr[cf->n_eintr++] = atol(v);
		}
		(void)is_out;
	}
	free(text);
	active = 1;
}

static int eintr_now(struct faults *f, long idx)
{
	for (int i = 0; i < f->n_eintr; i++)
		if (f->eintr[i] == idx)
			return 1;
	return 0;
}

static ssize_t write_all_real(int fd, const char *buf, size_t n)
{
	size_t done = 0;
	while (done < n) {
		ssize_t r = real_write(fd, buf + done, n - done);
		if (r < 0) {
			if (errno == EINTR)
				continue;
			return -1;
		}
		done += (size_t)r;
	}
	return (ssize_t)done;
}

static ssize_t sim_write(int fd, const void *buf, size_t count)
{
	long idx = out_f.calls++;
	if (eintr_now(&out_f, idx)) {
		logf_("W %zu -1 %d %ld\n", count, EINTR, out_f.total);
		errno = EINTR;
		return -1;
	}
	if (count == 0) {
		logf_("W 0 0 0 %ld\n", out_f.total);
		return 0;
	}
	long room = LONG_MAX;
	if (out_f.fail_at >= 0) {
		if (out_f.total >= out_f.fail_at) {
			logf_("W %zu -1 %d %ld\n", count, out_f.fail_errno, out_f.total);
			errno = out_f.fail_errno;
			return -1;
		}
		room = out_f.fail_at - out_f.total;
	}
	long want = sched_next(&out_s);
	size_t n = count;
	if ((long)n > want)
		n = (size_t)want;
	if ((long)n > room)
		n = (size_t)room;
	if (write_all_real(fd, buf, n) < 0) {
		int e = errno;
		logf_("W %zu -1 %d %ld real\n", count, e, out_f.total);
		errno = e;
		return -1;
	}
	out_f.total += (long)n;
	logf_("W %zu %zu 0 %ld\n", count, n, out_f.total);
	return (ssize_t)n;
}

ssize_t write(int fd, const void *buf, size_t count)
{
	init();
	if (!active || fd != 1)
		return real_write(fd, buf, count);
	return sim_write(fd, buf, count);
}

ssize_t writev(int fd, const struct iovec *iov, int iovcnt)
{
	init();
	if (!active || fd != 1) {
		ssize_t (*real_writev)(int, const struct iovec *, int) = dlsym(RTLD_NEXT, "writev");
		return real_writev(fd, iov, iovcnt);
	}
	/* Like a short writev: serve the first non-empty buffer. */
	for (int i = 0; i < iovcnt; i++)
		if (iov[i].iov_len > 0)
			return sim_write(fd, iov[i].iov_base, iov[i].iov_len);
	return sim_write(fd, "", 0);
}

static struct input *find_input(int fd, char *name, size_t cap)
{
	name[0] = 0;
	if (fd == 0) {
		strncpy(name, "stdin", cap - 1);
	} else {
		char link[64];
		snprintf(link, sizeof link, "/proc/self/fd/%d", fd);
		ssize_t r = readlink(link, name, cap - 1);
		if (r <= 0)
			return NULL;
		name[r] = 0;
	}
	for (int i = 0; i < n_inputs; i++)
		if (!strcmp(inputs[i].name, name))
			return &inputs[i];
	return NULL;
}

ssize_t read(int fd, void *buf, size_t count)
{
	init();
	if (!active || fd == log_fd)
		return real_read(fd, buf, count);
	char name[PATH_MAX];
	struct input *in = find_input(fd, name, sizeof name);
	if (!in)
		return real_read(fd, buf, count);
	long idx = in->f.calls++;
	if (eintr_now(&in->f, idx)) {
		logf_("R %d %s %zu -1 %d %ld\n", fd, name, count, EINTR, in->f.total);
		errno = EINTR;
		return -1;
	}
	if (count == 0)
		return real_read(fd, buf, 0);
	long room = LONG_MAX;
	if (in->f.fail_at >= 0) {
		if (in->f.total >= in->f.fail_at) {
			logf_("R %d %s %zu -1 %d %ld\n", fd, name, count, in->f.fail_errno, in->f.total);
			errno = in->f.fail_errno;
			return -1;
		}
		room = in->f.fail_at - in->f.total;
	}
	long want = sched_next(&in->s);
	size_t n = count;
	if ((long)n > want)
		n = (size_t)want;
	if ((long)n > room)
		n = (size_t)room;
	/* Deliver exactly n bytes unless the source ends: kernel timing cannot change the pattern. */
	size_t got = 0;
	while (got < n) {
		ssize_t r = real_read(fd, (char *)buf + got, n - got);
		if (r < 0) {
			if (errno == EINTR)
				continue;
			int e = errno;
			if (got > 0)
				break;
			logf_("R %d %s %zu -1 %d %ld real\n", fd, name, count, e, in->f.total);
			errno = e;
			return -1;
		}
		if (r == 0)
			break;
		got += (size_t)r;
	}
	in->f.total += (long)got;
	logf_("R %d %s %zu %zu 0 %ld\n", fd, name, count, got, in->f.total);
	return (ssize_t)got;
}

static int deny_mmap(int fd, int flags)
{
	init();
	if (!active || !plan_nommap || fd < 3 || (flags & MAP_ANONYMOUS))
		return 0;
	char name[PATH_MAX];
	find_input(fd, name, sizeof name);
	logf_("M %d %s denied\n", fd, name);
	return 1;
}

void *mmap(void *addr, size_t length, int prot, int flags, int fd, off_t offset)
{
	if (deny_mmap(fd, flags)) {
		errno = ENODEV;
		return MAP_FAILED;
	}
	if (!real_mmap)
		real_mmap = dlsym(RTLD_NEXT, "mmap");
	void *p = real_mmap(addr, length, prot, flags, fd, offset);
	if (active && fd >= 3 && !(flags & MAP_ANONYMOUS)) {
		char name[PATH_MAX];
		find_input(fd, name, sizeof name);
		logf_("M %d %s %s\n", fd, name, p == MAP_FAILED ? "failed" : "ok");
	}
	return p;
}

void *mmap64(void *addr, size_t length, int prot, int flags, int fd, off64_t offset)
{
	if (deny_mmap(fd, flags)) {
		errno = ENODEV;
		return MAP_FAILED;
	}
	if (!real_mmap64)
		real_mmap64 = dlsym(RTLD_NEXT, "mmap64");
	void *p = real_mmap64(addr, length, prot, flags, fd, offset);
	if (active && fd >= 3 && !(flags & MAP_ANONYMOUS)) {
		char name[PATH_MAX];
		find_input(fd, name, sizeof name);
		logf_("M %d %s %s\n", fd, name, p == MAP_FAILED ? "failed" : "ok");
	}
	return p;
}

/* poll/ppoll on fd 1 alone: the simulated consumer that "closes after k bytes"
 * (out fail k EPIPE) shows what a pipe whose reader has gone shows - POLLERR -
 * from the moment k bytes have been accepted; before that fd 1 is writable. */
static int sim_poll_fd1(struct pollfd *fds)
{
	short re = 0;
	if (out_f.fail_at >= 0 && out_f.fail_errno == EPIPE && out_f.total >= out_f.fail_at)
		re = POLLERR;
	else
		re = (short)(fds[0].events & POLLOUT);
	fds[0].revents = re;
	logf_("P %d %ld\n", (int)re, out_f.total);
	return re != 0;
}

int poll(struct pollfd *fds, nfds_t nfds, int timeout)
{
	static int (*real_poll)(struct pollfd *, nfds_t, int);
	init();
	if (active && nfds == 1 && fds && fds[0].fd == 1)
		return sim_poll_fd1(fds);
	if (!real_poll)
		real_poll = dlsym(RTLD_NEXT, "poll");
	return real_poll(fds, nfds, timeout);
}

int ppoll(struct pollfd *fds, nfds_t nfds, const struct timespec *tmo, const sigset_t *sigmask)
{
	static int (*real_ppoll)(struct pollfd *, nfds_t, const struct timespec *, const sigset_t *);
	init();
	if (active && nfds == 1 && fds && fds[0].fd == 1)
		return sim_poll_fd1(fds);
	if (!real_ppoll)
		real_ppoll = dlsym(RTLD_NEXT, "ppoll");
	return real_ppoll(fds, nfds, tmo, sigmask);
}

int isatty(int fd)
{
	init();
	if (active && fd == 1 && plan_tty) {
		logf_("T 1 1\n");
		return 1;
	}
	int r = real_isatty(fd);
	if (active && fd == 1)
		logf_("T 1 %d\n", r);
	return r;
}
