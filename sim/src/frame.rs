//! Independent framing readers for xt's three streaming output formats. They
//! share no code with xt or the serde crates: a JSON value scanner, a
//! MessagePack size scanner and a YAML document-marker splitter. They recover
//! the documents of an output stream (and whether the tail is incomplete).

/// Result of splitting an output stream into documents.
#[derive(Debug, Default, PartialEq, Eq)]
pub struct Framed<'a> {
	pub docs: Vec<&'a [u8]>,
	/// Bytes after the last complete document (empty if the stream ends cleanly).
	pub tail: &'a [u8],
	/// The complete part violated the framing convention.
	pub malformed: Option<String>,
}

/// JSON as xt writes it: one compact value per line, each line ended by '\n'.
pub fn json_lines(out: &[u8]) -> Framed<'_> {
	let mut f = Framed::default();
	let mut start = 0;
	for (i, &b) in out.iter().enumerate() {
		if b == b'\n' {
			let line = &out[start..i];
			if let Err(e) = json_complete_value(line) {
				if f.malformed.is_none() {
					f.malformed = Some(format!("line {} is not one complete JSON value: {e}", f.docs.len() + 1));
				}
			}
			f.docs.push(&out[start..=i]);
			start = i + 1;
		}
	}
	f.tail = &out[start..];
	f
}

/// Checks that `s` is exactly one JSON value (structure only: brackets,
/// strings, literals/numbers as bare-word runs).
pub fn json_complete_value(s: &[u8]) -> Result<(), String> {
	let mut i = 0;
	let n = s.len();
	let mut stack: Vec<u8> = vec![];
	let mut values_at_root = 0;
	let mut expect_value = true;
	while i < n {
		let c = s[i];
		match c {
			b' ' | b'\t' | b'\r' => i += 1,
			b'"' => {
				i += 1;
				loop {
					if i >= n {
						return Err("unterminated string".into());
					}
					match s[i] {
						b'\\' => i += 2,
						b'"' => {
							i += 1;
							break;
						}
						_ => i += 1,
					}
				}
				if stack.is_empty() {
					values_at_root += 1;
				}
				expect_value = false;
			}
			b'{' | b'[' => {
				stack.push(c);
				i += 1;
				expect_value = true;
			}
			b'}' | b']' => {
				let open = stack.pop().ok_or("unbalanced close")?;
				if (open == b'{') != (c == b'}') {
					return Err("mismatched bracket".into());
				}
				if stack.is_empty() {
					values_at_root += 1;
				}
				i += 1;
				expect_value = false;
			}
			b',' | b':' => {
				if stack.is_empty() {
					return Err("separator at top level".into());
				}
				i += 1;
				expect_value = true;
			}
			_ => {
				// bare word: number / true / false / null
				let st = i;
				while i < n && !matches!(s[i], b' ' | b'\t' | b'\r' | b',' | b':' | b'{' | b'}' | b'[' | b']' | b'"') {
					i += 1;
				}
				let w = &s[st..i];
				let ok = w == b"true" || w == b"false" || w == b"null" || (w.iter().all(|b| b.is_ascii_digit() || matches!(b, b'-' | b'+' | b'.' | b'e' | b'E')) && w.iter().any(u8::is_ascii_digit));
				if !ok {
					return Err(format!("bad token {:?}", String::from_utf8_lossy(w)));
				}
				if stack.is_empty() {
					values_at_root += 1;
				}
				expect_value = false;
			}
		}
	}
	let _ = expect_value;
	if !stack.is_empty() {
		return Err("unclosed bracket".into());
	}
	if values_at_root != 1 {
		return Err(format!("{values_at_root} top-level values"));
	}
	Ok(())
}

/// Size of the MessagePack value at the start of `b`; None if truncated or invalid.
/// Iterative (no recursion), independent of xt's own calculator.
pub fn msgpack_value_size(b: &[u8]) -> Option<usize> {
	let mut pending: u64 = 1;
	let mut i = 0usize;
	let be = |s: &[u8]| -> u64 { s.iter().fold(0u64, |a, &x| a << 8 | u64::from(x)) };
	while pending > 0 {
		let m = *b.get(i)?;
		i += 1;
		pending -= 1;
		let mut skip: u64 = 0;
		match m {
			0x00..=0x7f | 0xe0..=0xff | 0xc0 | 0xc2 | 0xc3 => {}
			0x80..=0x8f => pending += 2 * u64::from(m & 0x0f),
			0x90..=0x9f => pending += u64::from(m & 0x0f),
			0xa0..=0xbf => skip = u64::from(m & 0x1f),
			0xc1 => return None,
			0xc4 | 0xd9 => {
				skip = be(b.get(i..i + 1)?);
				i += 1;
			}
			0xc5 | 0xda => {
				skip = be(b.get(i..i + 2)?);
				i += 2;
			}
			0xc6 | 0xdb => {
				skip = be(b.get(i..i + 4)?);
				i += 4;
			}
			0xc7 => {
				skip = be(b.get(i..i + 1)?) + 1;
				i += 1;
			}
			0xc8 => {
				skip = be(b.get(i..i + 2)?) + 1;
				i += 2;
			}
			0xc9 => {
				skip = be(b.get(i..i + 4)?) + 1;
				i += 4;
			}
			0xca | 0xce | 0xd2 => skip = 4,
			0xcb | 0xcf | 0xd3 => skip = 8,
			0xcc | 0xd0 => skip = 1,
			0xcd | 0xd1 => skip = 2,
			0xd4 => skip = 2,
			0xd5 => skip = 3,
			0xd6 => skip = 5,
			0xd7 => skip = 9,
			0xd8 => skip = 17,
			0xdc => {
				pending += be(b.get(i..i + 2)?);
				i += 2;
			}
			0xdd => {
				pending += be(b.get(i..i + 4)?);
				i += 4;
			}
			0xde => {
				pending += 2 * be(b.get(i..i + 2)?);
				i += 2;
			}
			0xdf => {
				pending += 2 * be(b.get(i..i + 4)?);
				i += 4;
			}
		}
		let end = (i as u64).checked_add(skip)?;
		if end > b.len() as u64 {
			return None;
		}
		i = end as usize;
	}
	Some(i)
}

/// Nesting depth (number of collections around the innermost value on the
/// deepest path) of the first MessagePack value; None if invalid.
pub fn msgpack_values(out: &[u8]) -> Framed<'_> {
	let mut f = Framed::default();
	let mut i = 0;
	while i < out.len() {
		match msgpack_value_size(&out[i..]) {
			Some(n) => {
				f.docs.push(&out[i..i + n]);
				i += n;
			}
			None => break,
		}
	}
	f.tail = &out[i..];
	f
}

/// YAML as xt writes it: every document starts with a line that is exactly
/// `---`. A document counts as complete when the next marker line (or nothing
/// at all, for `complete_last`) follows it.
pub fn yaml_docs(out: &[u8], complete_last: bool) -> Framed<'_> {
	let mut f = Framed::default();
	let mut starts = vec![];
	let mut i = 0;
	while i < out.len() {
		let eol = out[i..].iter().position(|&b| b == b'\n').map_or(out.len(), |p| i + p);
		if &out[i..eol] == b"---" && eol < out.len() {
			starts.push(i);
		}
		i = eol + 1;
	}
	if out.is_empty() {
		return f;
	}
	if starts.first() != Some(&0) {
		f.malformed = Some("YAML output does not begin with a '---' line".into());
		f.tail = out;
		return f;
	}
	for w in 0..starts.len() {
		let st = starts[w];
		if w + 1 < starts.len() {
			f.docs.push(&out[st..starts[w + 1]]);
		} else if complete_last && out.ends_with(b"\n") {
			f.docs.push(&out[st..]);
		} else {
			f.tail = &out[st..];
		}
	}
	f
}

pub fn frame(fmt: crate::scenario::Fmt, out: &[u8], complete_last: bool) -> Framed<'_> {
	match fmt {
		crate::scenario::Fmt::Json => json_lines(out),
		crate::scenario::Fmt::Msgpack => msgpack_values(out),
		crate::scenario::Fmt::Yaml => yaml_docs(out, complete_last),
		crate::scenario::Fmt::Toml => {
			let mut f = Framed::default();
			if !out.is_empty() {
				f.docs.push(out);
			}
			f
		}
	}
}
