//! Executes one `Scenario` against the real library: one `Translator` over a
//! `SimWriter`, one `SimReader` per reader call, every call under
//! `catch_unwind`. Returns the verdicts, the consumer's byte log, the event
//! history and allocator statistics.

use std::cell::RefCell;
use std::panic::{self, AssertUnwindSafe};
use std::rc::Rc;

use crate::alloc;
use crate::rng::{fnv, mix};
use crate::scenario::Scenario;
use crate::simio::{Ev, Log, SharedLog, SimReader, SimWriter};

#[derive(Clone, Debug, PartialEq, Eq)]
pub enum Verdict {
	Ok,
	Err(String),
	Panic(String),
}

impl Verdict {
	pub fn is_ok(&self) -> bool {
		matches!(self, Verdict::Ok)
	}
	pub fn is_err(&self) -> bool {
		matches!(self, Verdict::Err(_))
	}
	pub fn code(&self) -> u8 {
		match self {
			Verdict::Ok => 0,
			Verdict::Err(_) => 1,
			Verdict::Panic(_) => 2,
		}
	}
	pub fn kind(&self) -> &'static str {
		match self {
			Verdict::Ok => "Ok",
			Verdict::Err(_) => "Err",
			Verdict::Panic(_) => "Panic",
		}
	}
	pub fn text(&self) -> &str {
		match self {
			Verdict::Ok => "",
			Verdict::Err(s) | Verdict::Panic(s) => s,
		}
	}
}

#[derive(Clone, Debug, Default)]
pub struct CallOut {
	pub verdict: Option<Verdict>,
	pub out_before: u64,
	pub out_after: u64,
	pub reads: u64,
	pub data_reads: u64,
	pub delivered: usize,
	pub rfault_fired: u64,
	pub reintr_fired: u64,
	pub over_fired: u64,
	pub eof_delivered: bool,
	pub eof_seq: Option<u64>,
	pub hang: bool,
}

pub struct Outcome {
	pub calls: Vec<CallOut>,
	pub out: Vec<u8>,
	pub out_total: u64,
	pub out_hash: u64,
	pub log: Log,
	pub flush: Option<Result<(), String>>,
	pub wfault_fired: u64,
	pub weintr_fired: u64,
	pub short_writes: u64,
	pub writes: u64,
	pub flushes: u64,
	pub marks: Vec<(u64, u64)>,
	pub mem: alloc::Stats,
	pub whang: bool,
}

impl Outcome {
	pub fn verdict(&self, i: usize) -> &Verdict {
		self.calls[i].verdict.as_ref().expect("call executed")
	}
	pub fn any_panic(&self) -> Option<&str> {
		self.calls.iter().find_map(|c| match &c.verdict {
			Some(Verdict::Panic(s)) => Some(s.as_str()),
			_ => None,
		})
	}
	pub fn any_hang(&self) -> bool {
		self.whang || self.calls.iter().any(|c| c.hang)
	}

	/// Hash of the abstract event trace: op kind, size bucket, result kind, call index.
	pub fn trace_hash(&self) -> u64 {
		let bucket = |n: i64| -> u64 {
			match n {
				i64::MIN..=-1 => 7 + (-n) as u64,
				0 => 0,
				1 => 1,
				2..=7 => 2,
				8..=255 => 3,
				256..=8191 => 4,
				_ => 5,
			}
		};
		let mut h = 0x1234_5678_9abc_def0u64;
		for e in &self.log.ev {
			let x = match *e {
				Ev::Read { call, asked, got, .. } => 1 | (u64::from(call) << 8) | (bucket(i64::from(asked)) << 24) | (bucket(i64::from(got)) << 32),
				Ev::Write { asked, got, .. } => 2 | (bucket(i64::from(asked)) << 24) | (bucket(i64::from(got)) << 32),
				Ev::Flush { ok } => 3 | (u64::from(ok) << 8),
				Ev::CallStart { call } => 4 | (u64::from(call) << 8),
				Ev::CallEnd { call, verdict } => 5 | (u64::from(call) << 8) | (u64::from(verdict) << 24),
			};
			h = mix(h, x);
		}
		h
	}
}

thread_local! {
	static LAST_PANIC: RefCell<Option<String>> = const { RefCell::new(None) };
}

pub static LAST_PANIC_GLOBAL: std::sync::Mutex<Option<String>> = std::sync::Mutex::new(None);

/// Installs a silent panic hook that records message and location per thread.
pub fn install_panic_hook() {
	panic::set_hook(Box::new(|info| {
		let msg = if let Some(s) = info.payload().downcast_ref::<&str>() {
			(*s).to_owned()
		} else if let Some(s) = info.payload().downcast_ref::<String>() {
			s.clone()
		} else {
			"<non-string panic payload>".to_owned()
		};
		let loc = info.location().map(|l| format!(" at {}:{}", l.file(), l.line())).unwrap_or_default();
		if let Ok(mut g) = LAST_PANIC_GLOBAL.lock() {
			*g = Some(format!("{msg}{loc}"));
		}
		let _g = alloc::harness();
		let _ = LAST_PANIC.try_with(|p| *p.borrow_mut() = Some(format!("{msg}{loc}")));
	}));
}

pub fn take_panic() -> String {
	LAST_PANIC.with(|p| p.borrow_mut().take()).unwrap_or_else(|| "<panic>".to_owned())
}

/// Runs `f` under catch_unwind and turns the result into a `Verdict`.
pub fn guarded<F: FnOnce() -> Result<(), String>>(f: F) -> Verdict {
	match panic::catch_unwind(AssertUnwindSafe(f)) {
		Ok(Ok(())) => Verdict::Ok,
		Ok(Err(e)) => Verdict::Err(e),
		Err(_) => Verdict::Panic(take_panic()),
	}
}

#[derive(Clone, Copy, Default)]
pub struct Opts {
	/// Count events instead of storing them.
	pub lean: bool,
	/// Keep only length/hash of the output.
	pub drop_out: bool,
	/// Record (seq, total) marks for every successful write (C05).
	pub marks: bool,
	/// Measure allocations attributable to xt.
	pub measure: bool,
	/// Stop executing calls after the first failing one.
	pub stop_on_err: bool,
}

pub fn run(sc: &Scenario) -> Outcome {
	run_with(sc, Opts::default())
}

pub fn run_with(sc: &Scenario, opts: Opts) -> Outcome {
	let log: SharedLog = Rc::new(RefCell::new(Log { counting_only: opts.lean, ..Log::default() }));
	let writer = SimWriter::new(
		sc.writer.sched.clone(),
		sc.writer.fault.clone(),
		sc.writer.eintr.clone(),
		sc.writer.flushfail,
		log.clone(),
		!(opts.lean || opts.drop_out),
	);
	let wst = writer.st.clone();
	wst.borrow_mut().track_marks = opts.marks;
	let datas: Vec<Rc<Vec<u8>>> = sc.calls.iter().map(|c| Rc::new(c.bytes.clone())).collect();
	let mut calls: Vec<CallOut> = Vec::with_capacity(sc.calls.len());
	let mut flush = None;
	{
		let _g = alloc::harness();
		log.borrow_mut().ev.reserve(64);
	}
	if opts.measure {
		alloc::start();
	}
	{
		let mut translator = xt::Translator::new(writer, sc.to.xt());
		for (i, c) in sc.calls.iter().enumerate() {
			let ci = i as u16;
			let mut co = CallOut { out_before: wst.borrow().total, ..CallOut::default() };
			{
				let _g = alloc::harness();
				log.borrow_mut().push(Ev::CallStart { call: ci });
			}
			let from = c.from.map(|f| f.xt());
			let verdict;
			if c.reader {
				let reader = {
					let _g = alloc::harness();
					SimReader::new(ci, datas[i].clone(), c.sched.clone(), c.rfault.clone(), c.eintr.clone(), c.over, log.clone())
				};
				let rst = reader.stats.clone();
				verdict = guarded(|| translator.translate_reader(reader, from).map_err(|e| { let _g = alloc::harness(); e.to_string() }));
				let st = rst.borrow();
				co.reads = st.reads;
				co.data_reads = st.data_reads;
				co.delivered = st.delivered;
				co.rfault_fired = st.fault_fired;
				co.reintr_fired = st.eintr_fired;
				co.over_fired = st.over_fired;
				co.eof_delivered = st.eof_delivered;
				co.eof_seq = st.eof_seq;
				co.hang = st.hang;
			} else {
				let data = datas[i].clone();
				verdict = guarded(|| translator.translate_slice(&data, from).map_err(|e| { let _g = alloc::harness(); e.to_string() }));
			}
			{
				let _g = alloc::harness();
				log.borrow_mut().push(Ev::CallEnd { call: ci, verdict: verdict.code() });
			}
			co.out_after = wst.borrow().total;
			let failed = !verdict.is_ok();
			co.verdict = Some(verdict);
			calls.push(co);
			if failed && opts.stop_on_err {
				break;
			}
		}
		if sc.flush {
			let v = guarded(|| translator.flush().map_err(|e| e.to_string()));
			flush = Some(match v {
				Verdict::Ok => Ok(()),
				Verdict::Err(e) => Err(e),
				Verdict::Panic(p) => Err(format!("PANIC: {p}")),
			});
		}
	}
	let mem = if opts.measure { alloc::stop() } else { alloc::Stats::default() };
	let log = Rc::try_unwrap(log).map(RefCell::into_inner).unwrap_or_default();
	let st = wst.borrow();
	Outcome {
		calls,
		out: st.out.clone(),
		out_total: st.total,
		out_hash: st.hash,
		log,
		flush,
		wfault_fired: st.fault_fired,
		weintr_fired: st.eintr_fired,
		short_writes: st.short_writes,
		writes: st.writes,
		flushes: st.flushes,
		marks: st.marks.clone(),
		mem,
		whang: st.hang,
	}
}

/// The fault-free, whole-schedule translation of `bytes` supplied as a slice.
pub fn t0(bytes: &[u8], from: Option<crate::scenario::Fmt>, to: crate::scenario::Fmt) -> (Verdict, Vec<u8>) {
	let mut out = Vec::new();
	let v = guarded(|| xt::translate_slice(bytes, from.map(|f| f.xt()), to.xt(), &mut out).map_err(|e| e.to_string()));
	(v, out)
}

/// Same through a never-short reader.
pub fn t0_reader(bytes: &[u8], from: Option<crate::scenario::Fmt>, to: crate::scenario::Fmt) -> (Verdict, Vec<u8>) {
	let mut out = Vec::new();
	let v = guarded(|| xt::translate_reader(bytes, from.map(|f| f.xt()), to.xt(), &mut out).map_err(|e| e.to_string()));
	(v, out)
}

pub fn input_hash(sc: &Scenario) -> u64 {
	let mut h = fnv(sc.to.name().as_bytes());
	for c in &sc.calls {
		h = mix(h, fnv(&c.bytes));
		h = mix(h, u64::from(c.reader) | (c.from.map_or(9, |f| f as u64) << 8));
	}
	h
}
