//! Known findings: genuine defects of xt that were recorded rather than
//! repaired. The file `/verif/known_findings.json` is committed and never
//! written at run time. A violation is attributed to an open finding only if
//! the finding's predicate holds for the case AND the violation disappears
//! once the finding's neutralising transform is applied to the case.

use serde_json::Value as J;

use crate::prop::PropDef;
use crate::runner::eval_isolated;

pub struct Finding {
	pub id: String,
	pub property: String,
	pub status: String,
	pub title: String,
	pub witness: Option<J>,
	pub rule: String,
}

pub fn load() -> Vec<Finding> {
	let Ok(b) = std::fs::read("/verif/known_findings.json") else { return vec![] };
	let Ok(j) = serde_json::from_slice::<J>(&b) else {
		eprintln!("known_findings.json does not parse");
		std::process::exit(2);
	};
	let mut out = vec![];
	for f in j.get("findings").and_then(J::as_array).cloned().unwrap_or_default() {
		let id = f["id"].as_str().unwrap_or("?").to_owned();
		let status = f["status"].as_str().unwrap_or("open").to_owned();
		let title = f["title"].as_str().unwrap_or("").to_owned();
		let rule = f["rule"].as_str().unwrap_or("").to_owned();
		// One entry per property the finding surfaces under.
		if let Some(ws) = f.get("witnesses").and_then(J::as_object) {
			for (prop, w) in ws {
				out.push(Finding { id: id.clone(), property: prop.clone(), status: status.clone(), title: title.clone(), witness: if w.is_null() { None } else { Some(w.clone()) }, rule: rule.clone() });
			}
		}
	}
	out
}

/// In-process variant used by workers for every violation instance.
pub fn attribute_in_process(def: &PropDef, findings: &[Finding], case: &J, class: &str) -> Option<String> {
	for f in findings.iter().filter(|f| f.property == def.id && f.status == "open") {
		let Some(neutral) = crate::rules::neutralise(&f.rule, def.id, case) else { continue };
		let ev = (def.eval)(&neutral);
		if !ev.violations.iter().any(|v| v.class == class) {
			return Some(f.id.clone());
		}
	}
	None
}

/// Returns the id of the open finding this violation instance belongs to, if any.
#[allow(dead_code)]
pub fn attribute(def: &PropDef, findings: &[Finding], case: &J, class: &str) -> Option<String> {
	for f in findings.iter().filter(|f| f.property == def.id && f.status == "open") {
		let Some(neutral) = crate::rules::neutralise(&f.rule, def.id, case) else { continue };
		let r = eval_isolated(def, &neutral, "attr");
		if !r.violations.iter().any(|(c, _)| c == class) {
			return Some(f.id.clone());
		}
	}
	None
}
