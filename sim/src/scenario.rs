//! The explicit, replayable description of one library-level simulation: the
//! caller's history of calls, the producer behind every call and the consumer.
//! The executor is a pure function of a `Scenario` and the code under test.

use serde_json::{json, Map, Value as J};

use crate::simio::{RFault, Sched, WFault};

#[derive(Clone, Copy, Debug, PartialEq, Eq, PartialOrd, Ord, Hash)]
pub enum Fmt {
	Json,
	Msgpack,
	Toml,
	Yaml,
}

pub const ALL_FMTS: [Fmt; 4] = [Fmt::Json, Fmt::Msgpack, Fmt::Toml, Fmt::Yaml];
pub const STREAM_FMTS: [Fmt; 3] = [Fmt::Json, Fmt::Msgpack, Fmt::Yaml];

impl Fmt {
	pub fn xt(self) -> xt::Format {
		match self {
			Fmt::Json => xt::Format::Json,
			Fmt::Msgpack => xt::Format::Msgpack,
			Fmt::Toml => xt::Format::Toml,
			Fmt::Yaml => xt::Format::Yaml,
		}
	}
	pub fn from_xt(f: xt::Format) -> Fmt {
		match f {
			xt::Format::Json => Fmt::Json,
			xt::Format::Msgpack => Fmt::Msgpack,
			xt::Format::Toml => Fmt::Toml,
			xt::Format::Yaml => Fmt::Yaml,
			_ => unreachable!("unknown xt::Format"),
		}
	}
	pub fn name(self) -> &'static str {
		match self {
			Fmt::Json => "json",
			Fmt::Msgpack => "msgpack",
			Fmt::Toml => "toml",
			Fmt::Yaml => "yaml",
		}
	}
	pub fn letter(self) -> &'static str {
		&self.name()[..1]
	}
	pub fn parse(s: &str) -> Option<Fmt> {
		match s {
			"json" | "j" => Some(Fmt::Json),
			"msgpack" | "m" => Some(Fmt::Msgpack),
			"toml" | "t" => Some(Fmt::Toml),
			"yaml" | "y" => Some(Fmt::Yaml),
			_ => None,
		}
	}
	pub fn streaming(self) -> bool {
		self != Fmt::Toml
	}
}

pub fn from_name(f: Option<Fmt>) -> &'static str {
	f.map_or("detect", Fmt::name)
}

#[derive(Clone, Debug, PartialEq, Eq)]
pub struct Call {
	/// true: `translate_reader` over a simulated producer; false: `translate_slice`.
	pub reader: bool,
	pub from: Option<Fmt>,
	pub bytes: Vec<u8>,
	pub sched: Sched,
	pub rfault: Option<RFault>,
	pub eintr: Vec<u32>,
	pub over: Option<(u32, usize)>,
}

impl Call {
	pub fn slice(bytes: Vec<u8>, from: Option<Fmt>) -> Call {
		Call { reader: false, from, bytes, sched: Sched::whole(), rfault: None, eintr: vec![], over: None }
	}
	pub fn reader(bytes: Vec<u8>, from: Option<Fmt>, sched: Sched) -> Call {
		Call { reader: true, from, bytes, sched, rfault: None, eintr: vec![], over: None }
	}
}

#[derive(Clone, Debug, PartialEq, Eq, Default)]
pub struct WriterPlan {
	pub sched: Sched,
	pub fault: Option<WFault>,
	pub eintr: Vec<u32>,
	pub flushfail: bool,
}

#[derive(Clone, Debug, PartialEq)]
pub struct Scenario {
	pub to: Fmt,
	pub calls: Vec<Call>,
	pub writer: WriterPlan,
	/// Call `Translator::flush` after the last call.
	pub flush: bool,
	/// Free-form property-specific parameters (kept through minimisation).
	pub params: Map<String, J>,
}

impl Scenario {
	pub fn new(to: Fmt, calls: Vec<Call>) -> Scenario {
		Scenario { to, calls, writer: WriterPlan::default(), flush: false, params: Map::new() }
	}
	pub fn param_i(&self, k: &str) -> Option<i64> {
		self.params.get(k).and_then(J::as_i64)
	}
	pub fn param_s(&self, k: &str) -> Option<&str> {
		self.params.get(k).and_then(J::as_str)
	}
}

pub fn hex(b: &[u8]) -> String {
	const D: &[u8; 16] = b"0123456789abcdef";
	let mut s = String::with_capacity(b.len() * 2);
	for &x in b {
		s.push(D[(x >> 4) as usize] as char);
		s.push(D[(x & 15) as usize] as char);
	}
	s
}

pub fn unhex(s: &str) -> Option<Vec<u8>> {
	let s = s.as_bytes();
	if s.len() % 2 != 0 {
		return None;
	}
	let d = |c: u8| -> Option<u8> {
		match c {
			b'0'..=b'9' => Some(c - b'0'),
			b'a'..=b'f' => Some(c - b'a' + 10),
			b'A'..=b'F' => Some(c - b'A' + 10),
			_ => None,
		}
	};
	let mut out = Vec::with_capacity(s.len() / 2);
	for p in s.chunks(2) {
		out.push(d(p[0])? << 4 | d(p[1])?);
	}
	Some(out)
}

/// Printable rendering of bytes for humans (never parsed back).
pub fn preview(b: &[u8], max: usize) -> String {
	let mut s = String::new();
	for &c in b.iter().take(max) {
		match c {
			b'\n' => s.push_str("\\n"),
			b'\t' => s.push_str("\\t"),
			b'\\' => s.push_str("\\\\"),
			0x20..=0x7e => s.push(c as char),
			_ => s.push_str(&format!("\\x{c:02x}")),
		}
	}
	if b.len() > max {
		s.push_str(&format!("...(+{} bytes)", b.len() - max));
	}
	s
}

pub fn sched_to_json(s: &Sched) -> J {
	json!({"list": s.list, "cycle": s.cycle})
}

pub fn sched_from_json(j: &J) -> Option<Sched> {
	let list = j.get("list")?.as_array()?.iter().map(|x| x.as_u64().map(|v| v as u32)).collect::<Option<Vec<_>>>()?;
	Some(Sched { list, cycle: j.get("cycle")?.as_bool()? })
}

fn u32s(j: Option<&J>) -> Vec<u32> {
	j.and_then(J::as_array).map(|a| a.iter().filter_map(|x| x.as_u64().map(|v| v as u32)).collect()).unwrap_or_default()
}

impl Scenario {
	pub fn to_json(&self) -> J {
		let calls: Vec<J> = self
			.calls
			.iter()
			.map(|c| {
				json!({
					"supply": if c.reader { "reader" } else { "slice" },
					"from": c.from.map(Fmt::name),
					"hex": hex(&c.bytes),
					"preview": preview(&c.bytes, 120),
					"sched": sched_to_json(&c.sched),
					"rfault": c.rfault.as_ref().map(|f| json!({"at": f.at, "kind": f.kind})),
					"eintr": c.eintr,
					"over": c.over.map(|(a, e)| json!([a, e])),
				})
			})
			.collect();
		json!({
			"to": self.to.name(),
			"calls": calls,
			"writer": {
				"sched": sched_to_json(&self.writer.sched),
				"fault": self.writer.fault.as_ref().map(|f| json!({"at": f.at, "kind": f.kind})),
				"eintr": self.writer.eintr,
				"flushfail": self.writer.flushfail,
			},
			"flush": self.flush,
			"params": J::Object(self.params.clone()),
		})
	}

	pub fn from_json(j: &J) -> Option<Scenario> {
		let to = Fmt::parse(j.get("to")?.as_str()?)?;
		let mut calls = vec![];
		for c in j.get("calls")?.as_array()? {
			let rfault = match c.get("rfault") {
				Some(J::Object(o)) => Some(RFault {
					at: o.get("at")?.as_u64()? as usize,
					kind: o.get("kind")?.as_str()?.to_owned(),
				}),
				_ => None,
			};
			let over = match c.get("over") {
				Some(J::Array(a)) if a.len() == 2 => Some((a[0].as_u64()? as u32, a[1].as_u64()? as usize)),
				_ => None,
			};
			calls.push(Call {
				reader: c.get("supply")?.as_str()? == "reader",
				from: c.get("from").and_then(J::as_str).and_then(Fmt::parse),
				bytes: unhex(c.get("hex")?.as_str()?)?,
				sched: sched_from_json(c.get("sched")?)?,
				rfault,
				eintr: u32s(c.get("eintr")),
				over,
			});
		}
		let w = j.get("writer")?;
		let fault = match w.get("fault") {
			Some(J::Object(o)) => Some(WFault {
				at: o.get("at")?.as_u64()? as usize,
				kind: o.get("kind")?.as_str()?.to_owned(),
			}),
			_ => None,
		};
		Some(Scenario {
			to,
			calls,
			writer: WriterPlan {
				sched: sched_from_json(w.get("sched")?)?,
				fault,
				eintr: u32s(w.get("eintr")),
				flushfail: w.get("flushfail").and_then(J::as_bool).unwrap_or(false),
			},
			flush: j.get("flush").and_then(J::as_bool).unwrap_or(false),
			params: j.get("params").and_then(J::as_object).cloned().unwrap_or_default(),
		})
	}
}
