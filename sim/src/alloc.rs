//! Counting global allocator. Per-thread live/peak byte counters; allocations
//! made while a `harness()` guard is alive (simulator bookkeeping: event log,
//! consumer's byte log) are not attributed to the code under test.

use std::alloc::{GlobalAlloc, Layout, System};
use std::cell::Cell;

pub struct Counting;

thread_local! {
	static ENABLED: Cell<bool> = const { Cell::new(false) };
	static HARNESS: Cell<u32> = const { Cell::new(0) };
	static LIVE: Cell<isize> = const { Cell::new(0) };
	static PEAK: Cell<isize> = const { Cell::new(0) };
	static LARGEST: Cell<usize> = const { Cell::new(0) };
	static ALLOCS: Cell<u64> = const { Cell::new(0) };
}

#[inline]
fn on_alloc(size: usize) {
	let _ = ENABLED.try_with(|e| {
		if e.get() && HARNESS.with(Cell::get) == 0 {
			LIVE.with(|l| {
				let v = l.get() + size as isize;
				l.set(v);
				PEAK.with(|p| {
					if v > p.get() {
						p.set(v);
					}
				});
			});
			LARGEST.with(|m| {
				if size > m.get() {
					m.set(size);
				}
			});
			ALLOCS.with(|a| a.set(a.get() + 1));
		}
	});
}

#[inline]
fn on_dealloc(size: usize) {
	let _ = ENABLED.try_with(|e| {
		if e.get() && HARNESS.with(Cell::get) == 0 {
			LIVE.with(|l| l.set(l.get() - size as isize));
		}
	});
}

unsafe impl GlobalAlloc for Counting {
	unsafe fn alloc(&self, layout: Layout) -> *mut u8 {
		on_alloc(layout.size());
		unsafe { System.alloc(layout) }
	}
	unsafe fn dealloc(&self, ptr: *mut u8, layout: Layout) {
		on_dealloc(layout.size());
		unsafe { System.dealloc(ptr, layout) }
	}
	unsafe fn alloc_zeroed(&self, layout: Layout) -> *mut u8 {
		on_alloc(layout.size());
		unsafe { System.alloc_zeroed(layout) }
	}
	unsafe fn realloc(&self, ptr: *mut u8, layout: Layout, new_size: usize) -> *mut u8 {
		on_dealloc(layout.size());
		on_alloc(new_size);
		unsafe { System.realloc(ptr, layout, new_size) }
	}
}

pub struct HarnessGuard;

/// Marks the current scope as simulator bookkeeping.
pub fn harness() -> HarnessGuard {
	HARNESS.with(|h| h.set(h.get() + 1));
	HarnessGuard
}

impl Drop for HarnessGuard {
	fn drop(&mut self) {
		HARNESS.with(|h| h.set(h.get() - 1));
	}
}

#[derive(Clone, Copy, Debug, Default)]
pub struct Stats {
	pub peak: isize,
	pub largest: usize,
	pub allocs: u64,
	pub live_end: isize,
}

/// Starts measuring on this thread (counters reset to zero).
pub fn start() {
	LIVE.with(|c| c.set(0));
	PEAK.with(|c| c.set(0));
	LARGEST.with(|c| c.set(0));
	ALLOCS.with(|c| c.set(0));
	ENABLED.with(|c| c.set(true));
}

pub fn stop() -> Stats {
	ENABLED.with(|c| c.set(false));
	Stats {
		peak: PEAK.with(Cell::get),
		largest: LARGEST.with(Cell::get),
		allocs: ALLOCS.with(Cell::get),
		live_end: LIVE.with(Cell::get),
	}
}
