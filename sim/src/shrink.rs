//! Generic shrinking of library-level scenarios: drop calls, remove byte
//! ranges, simplify schedules, remove faults, lower fault offsets.

use serde_json::Value as J;

use crate::scenario::Scenario;
use crate::simio::Sched;

pub fn byte_removals(b: &[u8]) -> Vec<Vec<u8>> {
	let mut out = vec![];
	let n = b.len();
	if n == 0 {
		return out;
	}
	let mut size = n / 2;
	while size >= 1 {
		let mut i = 0;
		let mut made = 0;
		while i < n && made < 24 {
			let j = (i + size).min(n);
			let mut v = Vec::with_capacity(n - (j - i));
			v.extend_from_slice(&b[..i]);
			v.extend_from_slice(&b[j..]);
			out.push(v);
			i += size;
			made += 1;
		}
		if size == 1 {
			break;
		}
		size /= 2;
	}
	out
}

pub fn sched_simplifications(s: &Sched) -> Vec<Sched> {
	let mut out = vec![];
	if !s.is_whole() {
		out.push(Sched::whole());
		if !(s.cycle && s.list == [1]) {
			out.push(Sched::bytes(1));
		}
		if s.list.len() > 1 {
			out.push(Sched { list: s.list[..s.list.len() / 2].to_vec(), cycle: s.cycle });
			out.push(Sched { list: s.list[..1].to_vec(), cycle: false });
			out.push(Sched { list: s.list[..1].to_vec(), cycle: true });
		}
	}
	out
}

pub fn scenario_shrinks(sc: &Scenario) -> Vec<Scenario> {
	let mut out = vec![];
	// Drop calls.
	if sc.calls.len() > 1 {
		for i in 0..sc.calls.len() {
			let mut s = sc.clone();
			s.calls.remove(i);
			out.push(s);
		}
	}
	// Remove faults and transient events.
	if sc.writer.fault.is_some() {
		let mut s = sc.clone();
		s.writer.fault = None;
		out.push(s);
	}
	if !sc.writer.eintr.is_empty() {
		let mut s = sc.clone();
		s.writer.eintr.clear();
		out.push(s);
	}
	if sc.writer.flushfail {
		let mut s = sc.clone();
		s.writer.flushfail = false;
		out.push(s);
	}
	for i in 0..sc.calls.len() {
		let c = &sc.calls[i];
		if c.rfault.is_some() {
			let mut s = sc.clone();
			s.calls[i].rfault = None;
			out.push(s);
		}
		if !c.eintr.is_empty() {
			let mut s = sc.clone();
			s.calls[i].eintr.clear();
			out.push(s);
			if c.eintr.len() > 1 {
				for k in 0..c.eintr.len() {
					let mut s = sc.clone();
					s.calls[i].eintr.remove(k);
					out.push(s);
				}
			}
		}
		if c.over.is_some() {
			let mut s = sc.clone();
			s.calls[i].over = None;
			out.push(s);
		}
	}
	// Simplify schedules.
	for w in sched_simplifications(&sc.writer.sched) {
		let mut s = sc.clone();
		s.writer.sched = w;
		out.push(s);
	}
	for i in 0..sc.calls.len() {
		for w in sched_simplifications(&sc.calls[i].sched) {
			let mut s = sc.clone();
			s.calls[i].sched = w;
			out.push(s);
		}
	}
	// Remove byte ranges.
	for i in 0..sc.calls.len() {
		for b in byte_removals(&sc.calls[i].bytes) {
			let mut s = sc.clone();
			// keep a reader fault offset meaningful
			if let Some(f) = &mut s.calls[i].rfault {
				f.at = f.at.min(b.len());
			}
			s.calls[i].bytes = b;
			out.push(s);
		}
	}
	// Lower fault offsets.
	if let Some(f) = &sc.writer.fault {
		for at in [0, f.at / 2, f.at.saturating_sub(1)] {
			if at < f.at {
				let mut s = sc.clone();
				s.writer.fault.as_mut().unwrap().at = at;
				out.push(s);
			}
		}
	}
	for i in 0..sc.calls.len() {
		if let Some(f) = &sc.calls[i].rfault {
			for at in [0, f.at / 2, f.at.saturating_sub(1)] {
				if at < f.at {
					let mut s = sc.clone();
					s.calls[i].rfault.as_mut().unwrap().at = at;
					out.push(s);
				}
			}
		}
	}
	out
}

pub fn lib_shrink(case: &J) -> Vec<J> {
	let Some(sc) = Scenario::from_json(case) else { return vec![] };
	scenario_shrinks(&sc).iter().map(Scenario::to_json).collect()
}
