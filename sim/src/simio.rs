//! The simulated producer (`SimReader`), consumer (`SimWriter`) and the shared
//! event history. Every `read`, `write` and `flush` xt performs is one
//! scheduling point: the schedule decides how many bytes move, the fault plan
//! decides whether the call fails.

use std::cell::RefCell;
use std::io::{self, ErrorKind, Read, Write};
use std::rc::Rc;

use crate::alloc;

/// One entry of the I/O history. `seq` is the index in `Log::ev`.
#[derive(Clone, Copy, Debug, PartialEq, Eq)]
pub enum Ev {
	/// `got` < 0 encodes an error (-1 persistent fault, -2 EINTR, -3 budget/hang guard).
	Read { call: u16, asked: u32, got: i32, off_after: u64 },
	Write { asked: u32, got: i32, total_after: u64 },
	Flush { ok: bool },
	CallStart { call: u16 },
	CallEnd { call: u16, verdict: u8 },
}

#[derive(Default)]
pub struct Log {
	pub ev: Vec<Ev>,
	/// When false, events are only counted (long streams).
	pub counting_only: bool,
	pub count: u64,
}

impl Log {
	pub fn push(&mut self, e: Ev) {
		self.count += 1;
		if !self.counting_only {
			self.ev.push(e);
		}
	}
}

pub type SharedLog = Rc<RefCell<Log>>;

/// A list of chunk sizes. When the list is exhausted it either repeats
/// (`cycle`) or the rest is delivered/accepted whole.
#[derive(Clone, Debug, Default, PartialEq, Eq)]
pub struct Sched {
	pub list: Vec<u32>,
	pub cycle: bool,
}

impl Sched {
	pub fn whole() -> Sched {
		Sched { list: vec![], cycle: false }
	}
	pub fn bytes(n: u32) -> Sched {
		Sched { list: vec![n.max(1)], cycle: true }
	}
	pub fn is_whole(&self) -> bool {
		self.list.is_empty()
	}
	fn at(&self, i: usize) -> usize {
		if self.list.is_empty() {
			return usize::MAX;
		}
		if i < self.list.len() {
			(self.list[i] as usize).max(1)
		} else if self.cycle {
			(self.list[i % self.list.len()] as usize).max(1)
		} else {
			usize::MAX
		}
	}
}

pub const RKINDS: &[(&str, ErrorKind)] = &[
	("Other", ErrorKind::Other),
	("InvalidData", ErrorKind::InvalidData),
	("UnexpectedEof", ErrorKind::UnexpectedEof),
	("ConnectionReset", ErrorKind::ConnectionReset),
	("TimedOut", ErrorKind::TimedOut),
	("PermissionDenied", ErrorKind::PermissionDenied),
];

pub fn rkind(name: &str) -> ErrorKind {
	RKINDS.iter().find(|(n, _)| *n == name).map_or(ErrorKind::Other, |(_, k)| *k)
}

#[derive(Clone, Debug, PartialEq, Eq)]
pub struct RFault {
	/// Once this many bytes were delivered every read fails.
	pub at: usize,
	pub kind: String,
}

pub fn rtoken(at: usize) -> String {
	format!("simfault-producer-at-{at}")
}

pub fn wtoken(at: usize) -> String {
	format!("simfault-consumer-at-{at}")
}

#[derive(Default)]
pub struct ReaderStats {
	pub reads: u64,
	pub data_reads: u64,
	pub fault_fired: u64,
	pub eintr_fired: u64,
	pub over_fired: u64,
	pub reads_after_eof: u64,
	pub eof_delivered: bool,
	pub hang: bool,
	pub delivered: usize,
	/// Sequence number (log count) at which EOF was first delivered.
	pub eof_seq: Option<u64>,
}

pub struct SimReader {
	pub call: u16,
	data: Rc<Vec<u8>>,
	pos: usize,
	sched: Sched,
	sched_i: usize,
	fault: Option<RFault>,
	/// Read-call indices (0-based, counting every call) that fail once with Interrupted.
	eintr: Vec<u32>,
	/// (read-call index, excess): that call reports `n + excess` bytes.
	over: Option<(u32, usize)>,
	log: SharedLog,
	pub stats: Rc<RefCell<ReaderStats>>,
	budget: u64,
}

impl SimReader {
	#[allow(clippy::too_many_arguments)]
	pub fn new(
		call: u16,
		data: Rc<Vec<u8>>,
		sched: Sched,
		fault: Option<RFault>,
		eintr: Vec<u32>,
		over: Option<(u32, usize)>,
		log: SharedLog,
	) -> SimReader {
		let budget = 8 * data.len() as u64 + 100_000;
		SimReader {
			call,
			data,
			pos: 0,
			sched,
			sched_i: 0,
			fault,
			eintr,
			over,
			log,
			stats: Rc::new(RefCell::new(ReaderStats::default())),
			budget,
		}
	}

	fn ev(&self, asked: usize, got: i32) {
		let _g = alloc::harness();
		self.log.borrow_mut().push(Ev::Read {
			call: self.call,
			asked: asked.min(u32::MAX as usize) as u32,
			got,
			off_after: self.pos as u64,
		});
	}
}

impl Read for SimReader {
	fn read(&mut self, buf: &mut [u8]) -> io::Result<usize> {
		let idx;
		{
			let mut st = self.stats.borrow_mut();
			idx = st.reads;
			st.reads += 1;
			if st.reads > self.budget || st.reads_after_eof > 1000 {
				st.hang = true;
				drop(st);
				self.ev(buf.len(), -3);
				return Err(io::Error::new(ErrorKind::Other, "simulator: step budget exceeded (hang guard)"));
			}
		}
		if self.eintr.contains(&(idx.min(u64::from(u32::MAX)) as u32)) {
			self.stats.borrow_mut().eintr_fired += 1;
			self.ev(buf.len(), -2);
			return Err(io::Error::new(ErrorKind::Interrupted, "simulated EINTR"));
		}
		if buf.is_empty() {
			self.ev(0, 0);
			return Ok(0);
		}
		let mut limit = self.data.len();
		if let Some(f) = &self.fault {
			if self.pos >= f.at {
				self.stats.borrow_mut().fault_fired += 1;
				let err = {
					let _g = alloc::harness();
					io::Error::new(rkind(&f.kind), rtoken(f.at))
				};
				self.ev(buf.len(), -1);
				return Err(err);
			}
			limit = limit.min(f.at);
		}
		let remaining = limit - self.pos;
		if remaining == 0 {
			// Only reachable without a fault in range: end of data.
			let mut st = self.stats.borrow_mut();
			if st.eof_delivered {
				st.reads_after_eof += 1;
			} else {
				st.eof_delivered = true;
				st.eof_seq = Some(self.log.borrow().count);
			}
			drop(st);
			self.ev(buf.len(), 0);
			return Ok(0);
		}
		let want = self.sched.at(self.sched_i);
		self.sched_i += 1;
		let n = want.min(buf.len()).min(remaining);
		buf[..n].copy_from_slice(&self.data[self.pos..self.pos + n]);
		self.pos += n;
		{
			let mut st = self.stats.borrow_mut();
			st.data_reads += 1;
			st.delivered = self.pos;
		}
		let mut reported = n;
		if let Some((at, excess)) = self.over {
			if u64::from(at) == idx {
				reported = n.saturating_add(excess);
				self.stats.borrow_mut().over_fired += 1;
			}
		}
		self.ev(buf.len(), n as i32);
		Ok(reported)
	}
}

#[derive(Clone, Debug, PartialEq, Eq)]
pub struct WFault {
	/// Once this many bytes were accepted every write fails.
	pub at: usize,
	/// "other" (io error with token), "zero" (Ok(0)), "brokenpipe", "storagefull".
	pub kind: String,
}

#[derive(Default)]
pub struct WriterState {
	pub out: Vec<u8>,
	pub total: u64,
	pub hash: u64,
	pub keep: bool,
	pub writes: u64,
	pub short_writes: u64,
	pub fault_fired: u64,
	pub eintr_fired: u64,
	pub flushes: u64,
	pub flush_failed: u64,
	/// (seq, total_after) for each successful write, when `track_marks`.
	pub marks: Vec<(u64, u64)>,
	pub track_marks: bool,
	pub hang: bool,
}

pub struct SimWriter {
	sched: Sched,
	sched_i: usize,
	fault: Option<WFault>,
	eintr: Vec<u32>,
	flushfail: bool,
	log: SharedLog,
	pub st: Rc<RefCell<WriterState>>,
}

impl SimWriter {
	pub fn new(
		sched: Sched,
		fault: Option<WFault>,
		eintr: Vec<u32>,
		flushfail: bool,
		log: SharedLog,
		keep: bool,
	) -> SimWriter {
		let st = WriterState { keep, hash: 0xcbf2_9ce4_8422_2325, ..Default::default() };
		SimWriter { sched, sched_i: 0, fault, eintr, flushfail, log, st: Rc::new(RefCell::new(st)) }
	}
}

impl Write for SimWriter {
	fn write(&mut self, buf: &[u8]) -> io::Result<usize> {
		let _g = alloc::harness();
		let mut st = self.st.borrow_mut();
		let idx = st.writes;
		st.writes += 1;
		if self.eintr.contains(&(idx.min(u64::from(u32::MAX)) as u32)) {
			st.eintr_fired += 1;
			self.log.borrow_mut().push(Ev::Write { asked: buf.len() as u32, got: -2, total_after: st.total });
			return Err(io::Error::new(ErrorKind::Interrupted, "simulated EINTR"));
		}
		if buf.is_empty() {
			self.log.borrow_mut().push(Ev::Write { asked: 0, got: 0, total_after: st.total });
			return Ok(0);
		}
		let mut room = usize::MAX;
		if let Some(f) = &self.fault {
			let total = st.total as usize;
			if total >= f.at {
				st.fault_fired += 1;
				if st.fault_fired > 100_000 {
					// A caller that keeps writing into a dead consumer forever.
					st.hang = true;
					return Err(io::Error::new(ErrorKind::Other, "simulator: step budget exceeded (hang guard)"));
				}
				self.log.borrow_mut().push(Ev::Write { asked: buf.len() as u32, got: -1, total_after: st.total });
				return match f.kind.as_str() {
					"zero" => Ok(0),
					"brokenpipe" => Err(io::Error::new(ErrorKind::BrokenPipe, wtoken(f.at))),
					_ => Err(io::Error::new(ErrorKind::Other, wtoken(f.at))),
				};
			}
			room = f.at - total;
		}
		let want = self.sched.at(self.sched_i);
		self.sched_i += 1;
		let n = want.min(buf.len()).min(room);
		if n < buf.len() {
			st.short_writes += 1;
		}
		if st.keep {
			st.out.extend_from_slice(&buf[..n]);
		}
		let mut h = st.hash;
		for &b in &buf[..n] {
			h ^= u64::from(b);
			h = h.wrapping_mul(0x0000_0100_0000_01B3);
		}
		st.hash = h;
		st.total += n as u64;
		let total = st.total;
		let mut log = self.log.borrow_mut();
		log.push(Ev::Write { asked: buf.len() as u32, got: n as i32, total_after: total });
		if st.track_marks {
			let seq = log.count;
			st.marks.push((seq, total));
		}
		Ok(n)
	}

	fn flush(&mut self) -> io::Result<()> {
		let _g = alloc::harness();
		let mut st = self.st.borrow_mut();
		st.flushes += 1;
		if self.flushfail {
			st.flush_failed += 1;
			self.log.borrow_mut().push(Ev::Flush { ok: false });
			return Err(io::Error::new(ErrorKind::Other, "simfault-flush"));
		}
		self.log.borrow_mut().push(Ev::Flush { ok: true });
		Ok(())
	}
}
