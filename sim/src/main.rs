//! xtsim - deterministic simulation with fault injection for xt.
//!
//!   xtsim check <ID> [--tier quick|thorough] [--runs N] [--replay FILE]
//!   xtsim show <ID> <IDX> [--tier T]       print the explicit case of a run index
//!   xtsim worker ... / eval-case FILE      internal (crash-isolated children)

mod alloc;
mod exec;
mod frame;
mod gen;
mod known;
mod procsim;
mod prop;
mod props;
mod rng;
mod rules;
mod runner;
mod scenario;
mod shrink;
mod simio;

use std::path::Path;

use prop::Tier;

#[global_allocator]
static GLOBAL: alloc::Counting = alloc::Counting;

fn usage() -> ! {
	eprintln!("usage: xtsim check <ID> [--tier quick|thorough] [--runs N] [--replay FILE] | show <ID> <IDX> | list");
	std::process::exit(2);
}

fn main() {
	let args: Vec<String> = std::env::args().skip(1).collect();
	if args.is_empty() {
		usage();
	}
	let code = match args[0].as_str() {
		"list" => {
			for d in props::all() {
				println!("{} {}", d.id, d.level);
			}
			0
		}
		"check" => {
			let Some(def) = args.get(1).and_then(|s| props::find(s)) else { usage() };
			let mut tier = std::env::var("VERIF_TIER").ok().and_then(|s| Tier::parse(&s)).unwrap_or(Tier::Quick);
			let mut runs = None;
			let mut replay: Option<String> = None;
			let mut i = 2;
			while i < args.len() {
				match args[i].as_str() {
					"--tier" => {
						tier = args.get(i + 1).and_then(|s| Tier::parse(s)).unwrap_or_else(|| usage());
						i += 2;
					}
					"--runs" => {
						runs = args.get(i + 1).and_then(|s| s.parse().ok());
						i += 2;
					}
					"--replay" => {
						replay = args.get(i + 1).cloned();
						i += 2;
					}
					_ => usage(),
				}
			}
			if let Some(p) = replay {
				runner::replay_main(def, Path::new(&p))
			} else {
				runner::check_main(def, &runner::CheckOpts { tier, seed: runner::seed_from_env(), runs_override: runs })
			}
		}
		"show" => {
			let Some(def) = args.get(1).and_then(|s| props::find(s)) else { usage() };
			let idx: u64 = args.get(2).and_then(|s| s.parse().ok()).unwrap_or_else(|| usage());
			let tier = args.get(4).and_then(|s| Tier::parse(s)).unwrap_or(Tier::Quick);
			let case = (def.gen)(runner::seed_from_env(), idx, tier);
			println!("{}", serde_json::to_string_pretty(&case).unwrap());
			0
		}
		"trace" => {
			// Debug aid: run a library-level scenario (replay file or bare case) and print its event history.
			let Some(path) = args.get(1) else { usage() };
			let doc: serde_json::Value = serde_json::from_slice(&std::fs::read(path).expect("read case")).expect("parse case");
			let case = doc.get("case").cloned().unwrap_or(doc);
			let sc = scenario::Scenario::from_json(&case).expect("not a library-level scenario");
			exec::install_panic_hook();
			let o = exec::run(&sc);
			for (i, e) in o.log.ev.iter().enumerate() {
				println!("{i:5} {e:?}");
			}
			for (i, c) in o.calls.iter().enumerate() {
				println!("call {i}: {:?}", c.verdict);
			}
			println!("flush: {:?}", o.flush);
			println!("out ({} bytes): {}", o.out.len(), scenario::preview(&o.out, 400));
			0
		}
		"miri-case" => {
			// In-process evaluation of a replay file's case (used under `cargo miri run`).
			let Some(path) = args.get(1) else { usage() };
			let doc: serde_json::Value = serde_json::from_slice(&std::fs::read(path).expect("read case")).expect("parse case");
			let def = doc["property"].as_str().and_then(props::find).unwrap_or_else(|| usage());
			exec::install_panic_hook();
			let ev = (def.eval)(&doc["case"]);
			for v in &ev.violations {
				println!("V\t0\t{}\t{}", v.class, v.msg.replace(['\t', '\n'], " "));
			}
			i32::from(!ev.violations.is_empty())
		}
		"miri-run" => {
			// In-process execution of a few run indices, for `cargo miri run` (no subprocesses, no files).
			let def = args.get(1).and_then(|s| props::find(s)).unwrap_or_else(|| usage());
			let p = |i: usize| -> u64 { args.get(i).and_then(|s| s.parse().ok()).unwrap_or_else(|| usage()) };
			let (seed, from, to, step) = (p(2), p(3), p(4), p(5).max(1));
			exec::install_panic_hook();
			let mut bad = 0;
			let mut idx = from;
			while idx < to {
				println!("RUN {idx}");
				let case = (def.gen)(seed, idx, Tier::Quick);
				let ev = (def.eval)(&case);
				for v in &ev.violations {
					bad += 1;
					println!("V\t{idx}\t{}\t{}", v.class, v.msg.replace(['\t', '\n'], " "));
				}
				println!("DONE {idx} execs={}", ev.execs);
				idx += step;
			}
			i32::from(bad > 0)
		}
		"worker" => {
			if args.len() < 8 {
				usage();
			}
			let def = props::find(&args[1]).unwrap_or_else(|| usage());
			let tier = Tier::parse(&args[2]).unwrap_or_else(|| usage());
			let p = |i: usize| -> u64 { args[i].parse().unwrap_or_else(|_| usage()) };
			let only = args.get(8).map(|s| s.split(',').filter_map(|x| x.parse().ok()).collect::<Vec<u64>>());
			runner::worker_main(def, tier, p(3), p(4), p(5), p(6), only, p(7) as usize)
		}
		"eval-case" => {
			let Some(path) = args.get(1) else { usage() };
			let doc: serde_json::Value = serde_json::from_slice(&std::fs::read(path).expect("read case")).expect("parse case");
			let def = doc["property"].as_str().and_then(props::find).unwrap_or_else(|| usage());
			runner::eval_case_main(def, doc["case"].clone())
		}
		_ => usage(),
	};
	std::process::exit(code);
}
