//! C12 - I/O faults and partial I/O are handled faithfully by the library.
//!
//! One run = one (corpus input, source selection, target, read chunking, fault
//! family); within the run the fault position k is *enumerated*: every byte
//! offset of the input for producer faults, every accepted-byte count of the
//! fault-free output for consumer faults, every read/write call index for
//! transient faults.

use serde_json::{json, Value as J};

use super::common::*;
use crate::exec::{self, Outcome, Verdict};
use crate::frame;
use crate::gen;
use crate::prop::{Eval, PropDef, Tier};
use crate::rng::{hash_str, mix, Rng};
use crate::scenario::{from_name, Call, Scenario};
use crate::simio::{rtoken, RFault, Sched, WFault, RKINDS};

pub static DEF: PropDef = PropDef {
	id: "C12",
	level: "fault_enumeration",
	runs,
	gen,
	eval,
	shrink,
	rule: "run = (generated stream of 1-6 documents in one of 4 formats, explicit format or detection, target, read schedule, fault family); inside a run the fault position is enumerated: producer fails from every input offset k (6 error kinds), consumer fails from every accepted-byte count k of the fault-free output (3 failure styles), every single-call EINTR position, short-write patterns, failing flush. Non-trivial: at least one enumerated fault fired after >=1 output byte or during detection. Distinct = distinct (input bytes, formats, schedule, family) among non-trivial runs.",
	real: LIB_REAL,
	stub: LIB_STUB,
	assumptions: &[
		"the fault-free twin (same supply mode and read schedule, never-failing consumer) defines the expected bytes; value correctness of that twin is not checked here",
		"transient EINTR faults are outside the property's stated quantifier and are judged by the weak oracle only (Err, or Ok with exactly the fault-free output)",
	],
	expected_probes: &["r.fail.fired", "w.fail.fired", "w.short", "fault_inside_detection", "fault_after_output", "fault_not_reached", "r.eintr.fired", "w.eintr.fired", "flush.failed", "history.fired"],
	needs_bins: false,
	watchdog_s: 30,
};

fn runs(t: Tier) -> u64 {
	match t {
		Tier::Quick => 6_000,
		Tier::Thorough => 400_000,
	}
}

const FAMILIES: &[&str] = &["rfail", "rfail", "rfail", "wfail", "wfail", "wfail", "wshort", "flushfail", "reintr", "weintr", "history", "history"];

fn gen(seed: u64, idx: u64, _t: Tier) -> J {
	let mut r = Rng::derive(seed, "C12", idx);
	let (mut f, mut stream) = corpus_stream(&mut r, 6);
	if idx % 8 == 3 {
		// YAML in UTF-16/32 (with characters outside the BMP, i.e. surrogate pairs in UTF-16).
		let mut cfg = crate::gen::GenCfg::common();
		cfg.max_depth = 2;
		let (s, _) = gen::gen_stream(&mut r, crate::scenario::Fmt::Yaml, 2, &cfg, false);
		let mut text = String::from_utf8_lossy(&s.bytes).into_owned();
		text.push_str("---\nastral: \"\u{1F600}x\u{10348}\"\n");
		let enc = r.usize_below(4);
		stream.bytes = super::c02::encode_utf(&text, enc, r.chance(1, 2));
		f = crate::scenario::Fmt::Yaml;
	}
	if idx % 10 == 9 && f != crate::scenario::Fmt::Toml {
		// A larger input: several buffer refills (8 KiB BufReader, 16 KiB libyaml) lie inside it.
		let unit = stream.bytes.clone();
		let sep: &[u8] = if f == crate::scenario::Fmt::Json { b"\n" } else { b"" };
		let target = r.log_range(9_000, 40_000);
		while stream.bytes.len() < target && !unit.is_empty() {
			if f == crate::scenario::Fmt::Yaml && !unit.starts_with(b"---") {
				stream.bytes.extend_from_slice(b"---\n");
			}
			stream.bytes.extend_from_slice(sep);
			stream.bytes.extend_from_slice(&unit);
		}
	}
	let from = pick_from(&mut r, f);
	let to = pick_target(&mut r);
	let reader = r.chance(4, 5);
	let sched = if reader { gen::gen_sched(&mut r, stream.bytes.len()) } else { Sched::whole() };
	// Single-byte schedules over tens of KiB cost more than they tell.
	let sched = if stream.bytes.len() > 8000 && sched.cycle && sched.list.iter().all(|n| *n < 16) { Sched::bytes(r.range(200, 3000) as u32) } else { sched };
	let family = *r.pick(FAMILIES);
	let mut set_param_idx = 0usize;
	let mut call = Call::reader(stream.bytes.clone(), from, sched);
	call.reader = reader || family == "rfail" || family == "reintr";
	let mut calls = vec![call];
	let mut to = to;
	if family == "history" {
		// A caller history: healthy call(s) around one call whose producer fails.
		if to == crate::scenario::Fmt::Toml {
			to = crate::scenario::Fmt::Json;
		}
		calls[0].reader = true;
		let before = r.range(0, 2);
		let after = r.range(0, 2);
		let mut all = vec![];
		for _ in 0..before {
			let (f2, s2) = corpus_stream(&mut r, 3);
			let rd = r.chance(1, 2);
			let mut c = Call::reader(s2.bytes, Some(f2), if rd { gen::gen_sched(&mut r, 64) } else { Sched::whole() });
			c.reader = rd;
			all.push(c);
		}
		set_param_idx = all.len();
		all.push(calls.remove(0));
		for _ in 0..after {
			let (f2, s2) = corpus_stream(&mut r, 3);
			let rd = r.chance(1, 2);
			let mut c = Call::reader(s2.bytes, Some(f2), if rd { gen::gen_sched(&mut r, 64) } else { Sched::whole() });
			c.reader = rd;
			all.push(c);
		}
		calls = all;
	}
	let mut sc = Scenario::new(to, calls);
	set_param(&mut sc, "faulty_call", json!(set_param_idx));
	set_param(&mut sc, "family", json!(family));
	set_param(&mut sc, "rkind", json!(RKINDS[r.usize_below(RKINDS.len())].0));
	set_param(&mut sc, "wkind", json!(*r.pick(&["other", "other", "zero", "brokenpipe"])));
	if family == "wshort" || r.chance(1, 3) {
		sc.writer.sched = gen::gen_sched(&mut r, 256);
		if family == "wshort" && sc.writer.sched.is_whole() {
			sc.writer.sched = Sched::bytes(r.range(1, 7) as u32);
		}
	}
	sc.to_json()
}

fn positions(n: usize) -> Vec<usize> {
	// Every k in 0..=n for small n; dense ends + stride otherwise.
	if n <= 700 {
		return (0..=n).collect();
	}
	let mut v: Vec<usize> = (0..=64).collect();
	let stride = (n / 150).max(1);
	let mut k = 64;
	while k + 64 < n {
		v.push(k);
		// dense around the 8 KiB / 16 KiB buffer refills
		k += if (k % 8192) < 4 || (k % 8192) > 8188 { 1 } else { stride.min(8189 - (k % 8192)).max(1) };
	}
	v.extend((n - 64)..=n);
	v.sort_unstable();
	v.dedup();
	v
}

fn twin(sc: &Scenario) -> Scenario {
	let mut t = sc.clone();
	t.writer = Default::default();
	for c in &mut t.calls {
		c.rfault = None;
		c.eintr.clear();
		c.over = None;
	}
	t.flush = false;
	t
}

/// Complete documents of `out` are, in order, documents of `base` (both framed independently).
fn docs_in_order(to: crate::scenario::Fmt, out: &[u8], base: &[u8]) -> Result<(), String> {
	if is_prefix(out, base) {
		return Ok(());
	}
	let a = frame::frame(to, out, false);
	let b = frame::frame(to, base, true);
	for (i, d) in a.docs.iter().enumerate() {
		match b.docs.get(i) {
			Some(e) if e == d => {}
			Some(e) => return Err(format!("document {} delivered before the fault is {:?}, fault-free output has {:?}", i + 1, show(d), show(e))),
			None => return Err(format!("document {} delivered before the fault ({:?}) does not exist in the fault-free output", i + 1, show(d))),
		}
	}
	Ok(())
}

fn eval(case: &J) -> Eval {
	let sc = parse(case);
	let mut ev = Eval::default();
	let family = sc.param_s("family").unwrap_or("rfail").to_owned();
	let pinned = sc.param_i("k").map(|k| k as usize);
	let base_sc = twin(&sc);
	let base = exec::run(&base_sc);
	global_invariants(&mut ev, &base_sc, &base, "fault-free twin");
	add_io_counters(&mut ev, &base);
	let bv = base.verdict(0).clone();
	let src = from_name(sc.calls[0].from);
	let tag = format!("{}->{}/{}", src, sc.to.name(), if sc.calls[0].reader { "reader" } else { "slice" });
	let detect = sc.calls[0].from.is_none();
	let mut fired_interesting = false;
	let input_len = sc.calls[0].bytes.len();

	let check_common = |ev: &mut Eval, s: &Scenario, o: &Outcome, what: &str| {
		global_invariants(ev, s, o, what);
		add_io_counters(ev, o);
	};

	match family.as_str() {
		"rfail" => {
			let kind = sc.param_s("rkind").unwrap_or("Other").to_owned();
			let mut fine_base: Option<Outcome> = None;
			let ks = pinned.map_or_else(|| positions(input_len), |k| vec![k]);
			for k in ks {
				let mut s = sc.clone();
				s.calls[0].rfault = Some(RFault { at: k, kind: kind.clone() });
				let o = exec::run(&s);
				check_common(&mut ev, &s, &o, &format!("producer fails ({kind}) from offset {k}"));
				let v = o.verdict(0);
				if o.calls[0].rfault_fired > 0 {
					if !o.out.is_empty() || detect {
						fired_interesting = true;
					}
					if detect && o.out.is_empty() {
						ev.count("fault_inside_detection", 1);
					}
					if !o.out.is_empty() {
						ev.count("fault_after_output", 1);
					}
					match v {
						Verdict::Ok => ev.violate(format!("rfail/ok/{tag}/{kind}"), format!("k={k}: producer failed ({kind}) once {k} of {input_len} bytes were delivered, yet the translation returned Ok")),
						Verdict::Err(t) => {
							// The reader's text must survive - unless xt failed for a reason that is
							// independent of the fault (the fault-free run of the full input fails with
							// exactly the same text: the error was decided by bytes delivered earlier,
							// and a read that xt issued afterwards merely met the fault).
							let independent = matches!(&bv, Verdict::Err(bt) if bt == t);
							if independent {
								ev.count("fault_fired_after_own_error", 1);
							}
							if !t.contains(&rtoken(k)) && !independent {
								ev.violate(format!("rfail/text-lost/{tag}/{kind}"), format!("k={k}: producer error text '{}' is not in the message: {t:?}", rtoken(k)));
							}
						}
						Verdict::Panic(_) => {}
					}
					if let Err(e) = docs_in_order(sc.to, &o.out, &base.out) {
						// When the fault-free translation itself fails, how much it emitted before
						// failing may depend on how the bytes arrived (C02 only asks for
						// prefix-comparable partial outputs), and the fault changes that: the read
						// that ends at offset k is a short one. The reference is then the most any
						// fault-free supply emits - the one-byte-at-a-time producer.
						let fine_ok = !bv.is_ok() && {
							let fine = fine_base.get_or_insert_with(|| {
								let mut f = base_sc.clone();
								f.calls[0].reader = true;
								f.calls[0].sched = Sched::bytes(1);
								exec::run(&f)
							});
							docs_in_order(sc.to, &o.out, &fine.out).is_ok()
						};
						if fine_ok {
							ev.count("failing_baseline_finer_supply_used", 1);
							continue;
						}
						ev.violate(format!("rfail/wrong-docs/{tag}"), format!("k={k}: {e}"));
					}
				} else {
					ev.count("fault_not_reached", 1);
					// A planned fault that xt never runs into still shortens the read that ends at
					// offset k. For a translation that succeeds that must not matter at all; for one
					// that fails anyway only C02's weaker clause holds (partial outputs are
					// prefix-comparable).
					let same = if bv.is_ok() { o.out == base.out } else { prefix_comparable(&o.out, &base.out) };
					if v.kind() != bv.kind() || !same {
						ev.violate(format!("rfail/unreached-differs/{tag}"), format!("k={k}: fault was never reached but result differs from the fault-free twin: {} vs {}, outputs {:?} vs {:?}", v.kind(), bv.kind(), show(&o.out), show(&base.out)));
					}
				}
			}
		}
		"wfail" => {
			let kind = sc.param_s("wkind").unwrap_or("other").to_owned();
			let ks = pinned.map_or_else(|| positions(base.out.len()), |k| vec![k]);
			for k in ks {
				let mut s = sc.clone();
				s.writer.fault = Some(WFault { at: k, kind: kind.clone() });
				let o = exec::run(&s);
				check_common(&mut ev, &s, &o, &format!("consumer fails ({kind}) after {k} bytes"));
				let v = o.verdict(0);
				if o.wfault_fired > 0 {
					if k > 0 {
						fired_interesting = true;
						ev.count("fault_after_output", 1);
					}
					if v.is_ok() {
						ev.violate(format!("wfail/ok/{tag}/{kind}"), format!("k={k}: consumer failed ({kind}) after accepting {k} bytes, yet the translation returned Ok (fault-free output is {} bytes)", base.out.len()));
					}
					if o.out.len() != k || !is_prefix(&o.out, &base.out) {
						ev.violate(format!("wfail/not-prefix/{tag}"), format!("k={k}: accepted bytes {:?} are not the first {k} bytes of the fault-free output {:?} (first difference at {})", show(&o.out), show(&base.out), first_diff(&o.out, &base.out)));
					}
				} else {
					ev.count("fault_not_reached", 1);
					if v.kind() != bv.kind() || o.out != base.out {
						ev.violate(format!("wfail/unreached-differs/{tag}"), format!("k={k}: fault was never reached but result differs from the fault-free twin"));
					}
				}
			}
		}
		"wshort" => {
			let o = exec::run(&{
				let mut s = sc.clone();
				s.writer.fault = None;
				s
			});
			check_common(&mut ev, &sc, &o, "short-write consumer");
			if o.short_writes > 0 {
				fired_interesting = !o.out.is_empty();
			}
			if o.verdict(0).kind() != bv.kind() || o.out != base.out {
				ev.violate(format!("wshort/differs/{tag}"), format!("consumer accepting short pieces received {:?} ({}), fault-free output is {:?} ({}); first difference at {}", show(&o.out), o.verdict(0).kind(), show(&base.out), bv.kind(), first_diff(&o.out, &base.out)));
			}
		}
		"flushfail" => {
			let mut s = sc.clone();
			s.writer.flushfail = true;
			s.flush = true;
			let o = exec::run(&s);
			check_common(&mut ev, &s, &o, "failing flush");
			ev.count("flush.failed", u64::from(o.flushes > 0));
			fired_interesting = o.flushes > 0 && !o.out.is_empty();
			if o.verdict(0).is_ok() {
				match &o.flush {
					Some(Err(_)) => {}
					other => ev.violate(format!("flushfail/ok/{tag}"), format!("the consumer's flush fails but Translator::flush returned {other:?}")),
				}
				if o.out != base.out {
					ev.violate(format!("flushfail/out-differs/{tag}"), "output differs from the fault-free twin although only flush fails".to_string());
				}
			} else if !is_prefix(&o.out, &base.out) {
				ev.violate(format!("flushfail/not-prefix/{tag}"), "translation failed on a failing flush and its output is not a prefix of the fault-free output".to_string());
			}
		}
		"history" => {
			// Producer fault in call `fc` of a history; the calls before it are healthy and
			// the calls after it get healthy producers again.
			let fc = sc.param_i("faulty_call").unwrap_or(0) as usize;
			if fc >= sc.calls.len() || !base.calls.iter().all(|c| matches!(c.verdict, Some(Verdict::Ok))) {
				return ev;
			}
			let kind = sc.param_s("rkind").unwrap_or("Other").to_owned();
			let (pre_end, fc_end) = (base.calls[fc].out_before as usize, base.calls[fc].out_after as usize);
			let n = sc.calls[fc].bytes.len();
			let ks = pinned.map_or_else(|| positions(n), |k| vec![k]);
			for k in ks {
				let mut s = sc.clone();
				s.calls[fc].rfault = Some(RFault { at: k, kind: kind.clone() });
				let o = exec::run(&s);
				check_common(&mut ev, &s, &o, &format!("history: producer of call {fc} fails ({kind}) from offset {k}"));
				if o.calls[fc].rfault_fired == 0 {
					ev.count("fault_not_reached", 1);
					if o.out != base.out {
						ev.violate(format!("history/unreached-differs/{}", sc.to.name()), format!("k={k}: the fault in call {fc} was never reached but the history's output differs from the fault-free one"));
					}
					continue;
				}
				fired_interesting = true;
				ev.count("history.fired", 1);
				for (i, c) in o.calls.iter().enumerate() {
					let v = c.verdict.as_ref().unwrap();
					if i == fc {
						match v {
							Verdict::Ok => ev.violate(format!("history/ok/{}", sc.to.name()), format!("k={k}: call {fc}'s producer failed at offset {k}, yet the call returned Ok")),
							Verdict::Err(t) => {
								if !t.contains(&rtoken(k)) {
									ev.violate(format!("history/text-lost/{}", sc.to.name()), format!("k={k}: producer error text '{}' is not in the message of call {fc}: {t:?}", rtoken(k)));
								}
							}
							Verdict::Panic(_) => {}
						}
					} else if !v.is_ok() && v.code() != 2 {
						ev.violate(format!("history/healthy-call-failed/{}/{}", sc.to.name(), if i < fc { "before" } else { "after" }), format!("k={k}: call {i} has a healthy producer and succeeds in the fault-free history, but failed here: {}", v.text()));
					}
				}
				// Output: [calls before] ++ prefix of [faulty call's output] ++ [calls after].
				let pre = &base.out[..pre_end];
				let post = &base.out[fc_end..];
				if !is_prefix(pre, &o.out) {
					ev.violate(format!("history/earlier-output-damaged/{}", sc.to.name()), format!("k={k}: the output of the calls before the faulty one is not intact: {:?} vs {:?}", show(&o.out), show(pre)));
				} else if o.out.len() < pre.len() + post.len() || &o.out[o.out.len() - post.len()..] != post {
					ev.violate(format!("history/later-output-damaged/{}", sc.to.name()), format!("k={k}: the calls after the faulty one did not append their fault-free output"));
				} else {
					let mid = &o.out[pre.len()..o.out.len() - post.len()];
					if docs_in_order(sc.to, mid, &base.out[pre_end..fc_end]).is_err() {
						ev.violate(format!("history/partial-wrong/{}", sc.to.name()), format!("k={k}: what call {fc} emitted before failing ({:?}) is not made of documents of its fault-free output ({:?})", show(mid), show(&base.out[pre_end..fc_end])));
					}
				}
			}
		}
		"reintr" | "weintr" => {
			let n = if family == "reintr" { base.calls[0].reads } else { base.writes };
			let js: Vec<u32> = match pinned {
				Some(k) => vec![k as u32],
				None => (0..n.min(300) as u32).collect(),
			};
			for j in js {
				let mut s = sc.clone();
				if family == "reintr" {
					s.calls[0].eintr = vec![j];
				} else {
					s.writer.eintr = vec![j];
				}
				let o = exec::run(&s);
				check_common(&mut ev, &s, &o, &format!("{family} at call index {j}"));
				let fired = if family == "reintr" { o.calls[0].reintr_fired } else { o.weintr_fired };
				if fired > 0 {
					fired_interesting = true;
				}
				match o.verdict(0) {
					Verdict::Ok => {
						if !bv.is_ok() || o.out != base.out {
							ev.violate(format!("{family}/ok-different/{tag}"), format!("j={j}: one Interrupted {} call, translation returned Ok but the output {:?} differs from the fault-free output {:?} ({})", if family == "reintr" { "read" } else { "write" }, show(&o.out), show(&base.out), bv.kind()));
						}
					}
					Verdict::Err(_) => {
						if !prefix_comparable(&o.out, &base.out) && docs_in_order(sc.to, &o.out, &base.out).is_err() {
							ev.violate(format!("{family}/err-wrong-bytes/{tag}"), format!("j={j}: failed after an Interrupted call, but emitted bytes {:?} that are not part of the fault-free output {:?}", show(&o.out), show(&base.out)));
						}
					}
					Verdict::Panic(_) => {}
				}
			}
		}
		_ => {}
	}
	ev.nontrivial = fired_interesting;
	ev.key = key_of(&sc, mix(hash_str(&family), mix(sched_hash(&sc.calls[0].sched), sched_hash(&sc.writer.sched))));
	ev.trace = mix(base.trace_hash(), hash_str(&family));
	ev
}

fn shrink(case: &J) -> Vec<J> {
	let sc = parse(case);
	let mut out = vec![];
	if sc.param_i("k").is_none() {
		// Pin the sweep to a single fault position first.
		let n = sc.calls[0].bytes.len().max(64) * 3;
		for k in 0..=n.min(1500) {
			let mut s = sc.clone();
			set_param(&mut s, "k", json!(k));
			out.push(s.to_json());
		}
		return out;
	}
	let k = sc.param_i("k").unwrap_or(0);
	for s in crate::shrink::scenario_shrinks(&sc) {
		out.push(s.to_json());
	}
	for nk in [0, k / 2, k - 1] {
		if nk >= 0 && nk < k {
			let mut s = sc.clone();
			set_param(&mut s, "k", json!(nk));
			out.push(s.to_json());
		}
	}
	out
}
