//! Registry of property checks.

pub mod common;

pub mod c02;
pub mod c03;
pub mod c04;
pub mod c05;
pub mod c07;
pub mod c08;
pub mod c09;
pub mod c10;
pub mod c11;
pub mod c12;
pub mod c17;
pub mod c18;
pub mod pcli;

use crate::prop::PropDef;

pub fn all() -> Vec<&'static PropDef> {
	vec![&c02::DEF, &c03::DEF, &c04::DEF, &c05::DEF, &c07::DEF, &c08::DEF, &c09::DEF, &c10::DEF, &c11::DEF, &c12::DEF, &pcli::C13, &pcli::C14, &pcli::C15, &pcli::C16, &c17::DEF, &c18::DEF]
}

pub fn find(id: &str) -> Option<&'static PropDef> {
	all().into_iter().find(|d| d.id.eq_ignore_ascii_case(id))
}
