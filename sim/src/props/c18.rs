//! C18 - nesting limits are clean, and the same for slice and reader input
//! (library layer; the binaries are exercised by the process layer).
//!
//! One run = (format, nesting shape, target, explicit/detected, read
//! schedule) with the depth swept over a window around the format's limit, or
//! one far-beyond depth. Oracle: same verdict for slice and every reader
//! schedule at every depth; verdict monotone in depth; MessagePack accepts
//! 1023 collections around a scalar and rejects 1024; the slice-mode size
//! calculator agrees with rmp_serde; the worker process survives.

use serde::Deserialize;
use serde_json::{json, Value as J};

use super::common::*;
use crate::exec;
use crate::gen::{self, Shape, SHAPES};
use crate::prop::{Eval, PropDef, Tier};
use crate::rng::{hash_str, mix, Rng};
use crate::scenario::{from_name, Call, Fmt, Scenario, ALL_FMTS};
use crate::simio::Sched;

pub static DEF: PropDef = PropDef {
	id: "C18",
	level: "exploration",
	runs,
	gen,
	eval,
	shrink,
	rule: "library part: run = (source format, shape in {arrays, maps, alternating, random, key-position (MessagePack)}, target, explicit/detected, read schedule); window runs sweep EVERY depth in limit-6..=limit+6 (limits: MessagePack 1024, JSON 128, YAML 128, TOML 80) and compare slice with readers under never-short, 1-byte and drawn schedules; far runs use one depth from {10^3, 10^4, 10^5, 10^6} (+-jitter). Process part (p runs): the same documents through the debug and release binaries via mmap, a reader fallback (mmap denied) and stdin on an 8 MiB stack. Non-trivial: the window contains both an accepted and a rejected depth, or a far depth was rejected without a crash. Distinct = distinct (format, shape, pattern, target, source selection, schedule).",
	real: &["xt library under the simulator (library runs)", "the shipped debug and release binaries on an 8 MiB main-thread stack (process runs)", "serde_json, serde_yaml, unsafe-libyaml, rmp, rmp-serde, toml, toml_edit"],
	stub: &["producer/consumer/caller (library runs)", "byte transport of fds 0/1 and input files, mmap success (process runs: LD_PRELOAD interposer)"],
	assumptions: &["library runs execute on a thread with an 8 MiB stack (the default main-thread stack of the CLI); a stack overflow kills the crash-isolated worker and is reported as a violation with the run's scenario"],
	expected_probes: &["window.msgpack", "window.json", "window.yaml", "window.toml", "far", "shape.keys", "msgpack.1023_accepted", "msgpack.1024_rejected", "size_fn_compared", "window.has_accept_and_reject", "p.spawn", "p.accepted", "p.rejected", "bin.debug", "bin.release", "p.nommap"],
	needs_bins: true,
	watchdog_s: 120,
};

fn runs(t: Tier) -> u64 {
	match t {
		Tier::Quick => 3_000,
		Tier::Thorough => 60_000,
	}
}

pub fn limit_of(f: Fmt) -> usize {
	match f {
		Fmt::Msgpack => 1024,
		Fmt::Toml => 80,
		_ => 128,
	}
}

fn gen_proc(seed: u64, idx: u64, t: Tier) -> J {
	use crate::procsim::{FileSpec, ProcCase, ReadPlan};
	let mut r = Rng::derive(seed, "C18p", idx);
	let f = *r.pick(&ALL_FMTS);
	let shape = if f == Fmt::Msgpack { *r.pick(&SHAPES) } else { *r.pick(&SHAPES[..4]) };
	let limit = limit_of(f);
	let d = if r.chance(3, 4) {
		(limit as i64 + r.range(0, 12) as i64 - 6) as usize
	} else {
		match (f, shape, t) {
			(Fmt::Yaml, Shape::Arrays, _) => *r.pick(&[1_000usize, 10_000, 100_000]),
			(Fmt::Yaml, _, _) => *r.pick(&[1_000usize, 3_000]),
			(Fmt::Msgpack, _, _) => *r.pick(&[2_000usize, 10_000, 100_000, 1_000_000]),
			(_, Shape::Arrays, _) => *r.pick(&[1_000usize, 10_000, 100_000, 1_000_000]),
			_ => *r.pick(&[1_000usize, 3_000, 10_000]),
		}
	};
	let bytes = gen::nested(f, shape, d, r.next());
	let to = *r.pick(&ALL_FMTS);
	let mut c = ProcCase { bin: if r.chance(1, 2) { "debug" } else { "release" }.to_owned(), ..Default::default() };
	if to != Fmt::Json {
		c.args.push(format!("-t{}", to.letter()));
	}
	let explicit = r.chance(2, 3);
	match r.below(3) {
		0 => {
			// standard input
			if explicit {
				c.args.push(format!("-f{}", f.letter()));
			}
			c.stdin = Some(bytes);
			c.stdin_plan = Some(ReadPlan { sched: if r.chance(1, 2) { gen::gen_sched(&mut r, 4096) } else { Sched::whole() }, ..Default::default() });
		}
		k => {
			let name = if explicit { format!("deep.{}", f.name()) } else { "deep".to_owned() };
			c.files.push(FileSpec { name: name.clone(), kind: "file".into(), bytes, plan: Some(ReadPlan::default()) });
			c.args.push(name);
			c.nommap = k == 2;
		}
	}
	c.params.insert("fmt".into(), json!(f.name()));
	c.params.insert("shape".into(), json!(shape.name()));
	c.params.insert("depth".into(), json!(d));
	c.to_json()
}

fn eval_proc(case: &J) -> Eval {
	use crate::procsim;
	let mut ev = Eval::default();
	let Some(c) = procsim::ProcCase::from_json(case) else { return ev };
	let p = procsim::parse_args(&c.args);
	let o = procsim::run(&c);
	procsim::write_plan_note(&mut ev, &c, &o);
	ev.count("p.spawn", 1);
	let depth = c.params.get("depth").and_then(J::as_u64).unwrap_or(0);
	let f = c.params.get("fmt").and_then(J::as_str).unwrap_or("?").to_owned();
	ev.key = mix(hash_str(&case["args"].to_string()), mix(depth, hash_str(&c.bin) ^ u64::from(c.nommap)));
	ev.trace = mix(hash_str(&o.status()), hash_str(&f));
	if !procsim::proc_invariants(&mut ev, &c, &o) {
		return ev;
	}
	let ex = procsim::expect_run(&c, &p);
	if ex.lib_panic.is_some() {
		return ev;
	}
	let tag = format!("{f}/{}/{}", c.params.get("shape").and_then(J::as_str).unwrap_or("?"), c.bin);
	if o.code != Some(ex.exit) {
		ev.violate(format!("proc/verdict/{tag}"), format!("xt {:?} on a document nested {depth} deep ended with {}, the library says exit {} ({}); stderr {:?}", c.args, o.status(), ex.exit, ex.failure_kind, crate::scenario::preview(&o.stderr, 160)));
	} else if ex.exit == 0 && o.stdout != ex.maximal {
		ev.violate(format!("proc/bytes/{tag}"), format!("xt {:?} at depth {depth}: stdout differs from the library's output", c.args));
	}
	ev.count(if ex.exit == 0 { "p.accepted" } else { "p.rejected" }, 1);
	ev.nontrivial = true;
	ev
}

fn gen(seed: u64, idx: u64, t: Tier) -> J {
	if idx % 4 == 3 {
		return gen_proc(seed, idx, t);
	}
	let mut r = Rng::derive(seed, "C18", idx);
	let f = *r.pick(&ALL_FMTS);
	let shape = if f == Fmt::Msgpack { *r.pick(&SHAPES) } else { *r.pick(&SHAPES[..4]) };
	let far = r.chance(1, 6);
	// libyaml's scanner is quadratic in the nesting depth of flow mappings (stale
	// simple-key scan): 10^5 levels take minutes, 10^6 hours. That is slow but
	// terminating behaviour of a dependency, so far-beyond YAML map shapes stay
	// at depths that finish within the watchdog.
	let far_depths: &[usize] = match (f, shape, t) {
		(Fmt::Yaml, Shape::Arrays, Tier::Quick) => &[1_000, 10_000, 100_000],
		(Fmt::Yaml, Shape::Arrays, Tier::Thorough) => &[1_000, 10_000, 100_000, 1_000_000],
		(Fmt::Yaml, _, Tier::Quick) => &[1_000, 3_000],
		(Fmt::Yaml, _, Tier::Thorough) => &[1_000, 3_000, 10_000],
		(Fmt::Msgpack, _, _) => &[2_000, 10_000, 100_000, 1_000_000],
		// Text with deep mappings reaches libyaml's quadratic scanner through detection.
		(_, Shape::Arrays, _) => &[1_000, 10_000, 100_000, 1_000_000],
		(_, _, _) => &[1_000, 3_000, 10_000],
	};
	let depth = if far { *r.pick(far_depths) + r.range(0, 3) } else { 0 };
	let to = *r.pick(&ALL_FMTS);
	let from = if r.chance(2, 3) { Some(f) } else { None };
	let sched = gen::gen_sched(&mut r, 4096);
	let mut sc = Scenario::new(to, vec![Call::reader(vec![], from, sched)]);
	set_param(&mut sc, "fmt", json!(f.name()));
	set_param(&mut sc, "shape", json!(shape.name()));
	set_param(&mut sc, "pattern", json!(r.next() >> 1));
	set_param(&mut sc, "far", json!(depth));
	if to != Fmt::Toml && r.chance(1, 2) {
		// The translator is not fresh: an earlier small input (format detected) came first.
		set_param(&mut sc, "history", json!(r.pick(&[Fmt::Yaml, Fmt::Yaml, Fmt::Json, Fmt::Toml, Fmt::Msgpack]).name()));
	}
	sc.to_json()
}

fn eval(case: &J) -> Eval {
	if case["kind"].as_str() == Some("proc") {
		return eval_proc(case);
	}
	let sc = parse(case);
	let mut ev = Eval::default();
	let f = sc.param_s("fmt").and_then(Fmt::parse).unwrap_or(Fmt::Json);
	let shape = sc.param_s("shape").and_then(Shape::parse).unwrap_or(Shape::Arrays);
	let pattern = sc.param_i("pattern").unwrap_or(0) as u64;
	let far = sc.param_i("far").unwrap_or(0) as usize;
	let pinned = sc.param_i("depth").map(|d| d as usize);
	let limit = limit_of(f);
	let depths: Vec<usize> = match (pinned, far) {
		(Some(d), _) => vec![d],
		(None, 0) => (limit - 6..=limit + 6).collect(),
		(None, d) => vec![d],
	};
	let tag = format!("{}/{}/{}->{}", f.name(), shape.name(), from_name(sc.calls[0].from), sc.to.name());
	ev.count(
		if far > 0 {
			"far"
		} else {
			match f {
				Fmt::Msgpack => "window.msgpack",
				Fmt::Json => "window.json",
				Fmt::Yaml => "window.yaml",
				Fmt::Toml => "window.toml",
			}
		},
		1,
	);
	ev.count("shape.keys", u64::from(shape == Shape::Keys));
	let mut verdicts: Vec<(usize, bool)> = vec![];
	for &d in &depths {
		let bytes = gen::nested(f, shape, d, pattern);
		let mut variants: Vec<(&str, bool, Sched)> = vec![("slice", false, Sched::whole()), ("reader(never short)", true, Sched::whole())];
		if bytes.len() <= 200_000 {
			variants.push(("reader(drawn schedule)", true, sc.calls[0].sched.clone()));
		}
		if bytes.len() <= 20_000 {
			variants.push(("reader(1-byte reads)", true, Sched::bytes(1)));
		}
		let mut first: Option<(String, bool)> = None;
		for (name, reader, sched) in variants {
			let mut s = sc.clone();
			s.calls[0].bytes = bytes.clone();
			s.calls[0].reader = reader;
			s.calls[0].sched = sched;
			let o = exec::run_with(&s, exec::Opts { lean: true, ..Default::default() });
			global_invariants(&mut ev, &s, &o, &format!("depth {d} {name}"));
			add_io_counters(&mut ev, &o);
			let v = o.verdict(0);
			if v.code() == 2 {
				continue;
			}
			match &first {
				None => first = Some((name.to_owned(), v.is_ok())),
				Some((n0, ok0)) => {
					if *ok0 != v.is_ok() {
						ev.violate(format!("mode-dependent/{tag}"), format!("depth {d}: {n0} {} but {name} {} ({:?})", if *ok0 { "accepts" } else { "rejects" }, if v.is_ok() { "accepts" } else { "rejects" }, v.text()));
					}
				}
			}
		}
		if let (Some((n0, ok0)), Some(h)) = (&first, sc.param_s("history").and_then(Fmt::parse)) {
			// Same document, same translator - but after another input whose format was detected.
			let prior: &[u8] = match h {
				Fmt::Json => b"{\"h\": 1}",
				Fmt::Yaml => b"h: 1\n",
				Fmt::Toml => b"h = 1\n",
				Fmt::Msgpack => b"\x81\xa1h\x01",
			};
			let mut s = sc.clone();
			s.calls[0].bytes = bytes.clone();
			s.calls[0].reader = false;
			s.calls[0].sched = Sched::whole();
			s.calls.insert(0, Call::slice(prior.to_vec(), None));
			let o = exec::run_with(&s, exec::Opts { lean: true, ..Default::default() });
			global_invariants(&mut ev, &s, &o, &format!("depth {d} after a detected {} input", h.name()));
			add_io_counters(&mut ev, &o);
			ev.count("with_history", 1);
			if o.calls.len() == 2 && o.verdict(0).is_ok() && o.verdict(1).code() != 2 && o.verdict(1).is_ok() != *ok0 {
				ev.violate(format!("history-dependent/{tag}/after-{}", h.name()), format!("depth {d}: {n0} on a fresh translator {} but the same document as second input (after a detected {} input) {} ({:?})", if *ok0 { "accepts" } else { "rejects" }, h.name(), if o.verdict(1).is_ok() { "accepts" } else { "rejects" }, o.verdict(1).text()));
			}
		}
		if let Some((_, ok)) = first {
			verdicts.push((d, ok));
			if d >= 2 * limit && ok {
				ev.violate(format!("far-accepted/{tag}"), format!("a document nested {d} deep was accepted"));
			}
		}
		if f == Fmt::Msgpack && sc.calls[0].from == Some(Fmt::Msgpack) {
			// The slice-mode size calculator vs. what rmp_serde consumes.
			let mine = xt::verif::msgpack_next_value_size(&bytes);
			let mut de = rmp_serde::Deserializer::new(std::io::Cursor::new(&bytes[..]));
			de.set_max_depth(1024);
			let theirs = serde::de::IgnoredAny::deserialize(&mut de).map(|_| de.position() as usize).map_err(|e| e.to_string());
			ev.count("size_fn_compared", 1);
			match (&mine, &theirs) {
				(Ok(a), Ok(b)) if a != b => ev.violate(format!("size-fn/length/{}", shape.name()), format!("depth {d}: size calculator says {a} bytes, rmp_serde consumed {b}")),
				(Ok(_), Err(e)) => ev.violate(format!("size-fn/accepts-more/{}", shape.name()), format!("depth {d}: size calculator accepts a value that rmp_serde rejects ({e})")),
				(Err(e), Ok(_)) => ev.violate(format!("size-fn/rejects-more/{}", shape.name()), format!("depth {d}: size calculator rejects ({e}) a value that rmp_serde accepts")),
				_ => {}
			}
			// The two documented boundary facts (any target that can take the document).
			if matches!(sc.to, Fmt::Msgpack | Fmt::Yaml) || (sc.to == Fmt::Json && shape != Shape::Keys) {
				if let Some((_, ok)) = verdicts.last() {
					if d == 1023 {
						ev.count("msgpack.1023_accepted", u64::from(*ok));
						if !*ok {
							ev.violate(format!("msgpack-1023-rejected/{}", shape.name()), format!("1023 {} collections around a scalar are rejected", shape.name()));
						}
					}
					if d == 1024 {
						ev.count("msgpack.1024_rejected", u64::from(!*ok));
						if *ok {
							ev.violate(format!("msgpack-1024-accepted/{}", shape.name()), format!("1024 {} collections around a scalar are accepted", shape.name()));
						}
					}
				}
			}
		}
	}
	// Monotone: accept ... accept, reject ... reject.
	let mut seen_reject: Option<usize> = None;
	for &(d, ok) in &verdicts {
		match (ok, seen_reject) {
			(false, None) => seen_reject = Some(d),
			(true, Some(r)) => {
				ev.violate(format!("not-monotone/{tag}"), format!("depth {r} is rejected but the deeper depth {d} is accepted"));
				break;
			}
			_ => {}
		}
	}
	let both = verdicts.iter().any(|v| v.1) && verdicts.iter().any(|v| !v.1);
	ev.count("window.has_accept_and_reject", u64::from(both));
	ev.nontrivial = both || (far > 0 && verdicts.iter().all(|v| !v.1));
	ev.key = mix(hash_str(&tag), mix(pattern, mix(far as u64, sched_hash(&sc.calls[0].sched))));
	ev.trace = mix(hash_str(&tag), verdicts.iter().fold(0u64, |a, v| a * 2 + u64::from(v.1)));
	ev
}

fn shrink(case: &J) -> Vec<J> {
	if case["kind"].as_str() == Some("proc") {
		return vec![];
	}
	let sc = parse(case);
	let mut out = vec![];
	let f = sc.param_s("fmt").and_then(Fmt::parse).unwrap_or(Fmt::Json);
	if sc.param_i("depth").is_none() {
		let far = sc.param_i("far").unwrap_or(0) as usize;
		let ds: Vec<usize> = if far > 0 { vec![far] } else { (limit_of(f) - 6..=limit_of(f) + 6).collect() };
		for d in ds {
			let mut s = sc.clone();
			set_param(&mut s, "depth", json!(d));
			out.push(s.to_json());
		}
		return out;
	}
	let d = sc.param_i("depth").unwrap_or(0);
	for nd in [d / 2, d * 3 / 4, d - 1] {
		if nd > 0 && nd < d {
			let mut s = sc.clone();
			set_param(&mut s, "depth", json!(nd));
			out.push(s.to_json());
		}
	}
	if !sc.calls[0].sched.is_whole() {
		let mut s = sc.clone();
		s.calls[0].sched = Sched::whole();
		out.push(s.to_json());
	}
	out
}
