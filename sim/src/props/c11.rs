//! C11 - errors name their true cause.
//!
//! Three defect families, one per run: a consumer that starts failing at
//! EVERY accepted-byte count of the fault-free output (fault enumeration), one
//! unrepresentable value planted at a random tree position, a syntax error
//! planted at EVERY byte position. The expected "reason" texts are obtained by
//! probing the target serializer / source parser directly in the harness.

use std::io::{self, Write};

use serde::Deserialize;
use serde_json::{json, Value as J};

use super::c08::{v_from_json, v_to_json};
use super::common::*;
use crate::exec::{self, Verdict};
use crate::gen::{self, GenCfg, V};
use crate::prop::{Eval, PropDef, Tier};
use crate::rng::{hash_str, mix, Rng};
use crate::scenario::{from_name, Call, Fmt, Scenario, ALL_FMTS, STREAM_FMTS};
use crate::simio::{wtoken, WFault};

pub static DEF: PropDef = PropDef {
	id: "C11",
	level: "fault_enumeration",
	runs,
	gen,
	eval,
	shrink,
	rule: "run = (generated document(s), source format, slice/reader, target, defect family). wfail: the consumer fails from EVERY accepted-byte count k of the fault-free output (so the failing write is in turn a scalar, string piece, bracket, separator, newline, '---'); syntax: EVERY byte position is overwritten in turn by a syntax-breaking byte and the three streaming targets are compared; planted: one unrepresentable value (null/composite/binary key, binary value, null, oversized integer) at a random position of seq-index / map-key / map-value steps. Non-trivial: at least one enumerated defect produced an error. Distinct = distinct (bytes, formats, family, supply).",
	real: &["xt library under the simulator (9 of 10 runs)", "the shipped debug and release binaries, whose standard-error line is compared with the library's error text (1 of 10 runs)", "serde_json, serde_yaml, unsafe-libyaml, rmp, rmp-serde, toml, toml_edit"],
	stub: &["producer/consumer/caller (library runs)", "byte transport of fds 0/1 and input files, mmap success (process runs: LD_PRELOAD interposer)"],
	assumptions: &[
		"process runs: the text the shipped binary prints for a failing input must contain the complete error text the library returns for the same bytes, format and supply mode; for an injected ENOSPC/EIO on standard output it must contain the operating system's text for that errno",
		"the serializer's 'own reason' is obtained by driving the same serializer crate directly in the harness: with an always-failing writer (write faults) or with the offending value alone (unrepresentable values)",
		"rmp_serde by design omits the io error text from its Display ('invalid value write: ...'); for MessagePack output that phrase is the expected reason",
		"an input counts as malformed when the source format's own parser, driven by the harness into serde's IgnoredAny, rejects it",
	],
	expected_probes: &["wfail.fired", "wfail.on_separator", "wfail.on_scalar_or_string", "wfail.on_bracket", "wfail.on_newline_or_marker", "syntax.malformed", "syntax.still_valid", "planted.key", "planted.value", "planted.err", "target.json", "target.yaml", "target.msgpack", "target.toml", "cli.checked", "cli.long_message", "cli.wfail.fired"],
	needs_bins: true,
	watchdog_s: 30,
};

fn runs(t: Tier) -> u64 {
	match t {
		Tier::Quick => 8_000,
		Tier::Thorough => 500_000,
	}
}

struct FailingWriter;
impl Write for FailingWriter {
	fn write(&mut self, _: &[u8]) -> io::Result<usize> {
		Err(io::Error::new(io::ErrorKind::Other, "PROBE-TOKEN"))
	}
	fn flush(&mut self) -> io::Result<()> {
		Ok(())
	}
}

/// What the target serializer itself says when its writer fails.
fn write_failure_reason(to: Fmt, token: &str) -> String {
	let probe = V::A(vec![V::I(1)]);
	match to {
		Fmt::Msgpack => {
			let mut s = rmp_serde::Serializer::new(FailingWriter);
			match serde::Serialize::serialize(&probe, &mut s) {
				Err(e) => e.to_string(),
				Ok(()) => token.to_owned(),
			}
		}
		// serde_json, serde_yaml and xt's own write_all for TOML display the io error itself.
		_ => token.to_owned(),
	}
}

/// Candidate reason texts for an unrepresentable value in the given role.
fn unrepresentable_reasons(to: Fmt, off: &V, as_key: bool) -> Option<Vec<String>> {
	let doc = if as_key { V::M(vec![(off.clone(), V::I(1))]) } else if to == Fmt::Toml { V::M(vec![(V::S("k".into()), off.clone())]) } else { V::A(vec![off.clone()]) };
	match to {
		Fmt::Json => serde_json::to_vec(&doc).err().map(|e| vec![e.to_string()]),
		Fmt::Yaml => serde_yaml::to_string(&doc).err().map(|e| vec![e.to_string()]),
		Fmt::Msgpack => rmp_serde::to_vec(&doc).err().map(|e| vec![e.to_string()]),
		Fmt::Toml => {
			let mut v = vec![];
			if let Err(e) = toml::Value::try_from(&doc) {
				v.push(e.to_string());
			}
			// The streaming path builds the value through toml's Deserialize impl;
			// its reason is the "expected ..." part of serde's invalid_type message,
			// or a custom message.
			let mp = rmp_serde::to_vec(&doc).ok()?;
			let mut de = rmp_serde::Deserializer::from_read_ref(&mp);
			if let Err(e) = toml::Value::deserialize(&mut de) {
				let s = e.to_string();
				v.push(s.rsplit(", expected ").next().unwrap_or(&s).to_owned());
				v.push(s);
			}
			if v.is_empty() {
				None
			} else {
				Some(v)
			}
		}
	}
}

/// Does the source format's own parser reject these bytes? Returns its message.
fn parser_rejects(f: Fmt, b: &[u8]) -> Option<String> {
	use serde::de::IgnoredAny;
	match f {
		Fmt::Json => {
			let s = std::str::from_utf8(b).ok()?;
			for r in serde_json::Deserializer::from_str(s).into_iter::<IgnoredAny>() {
				if let Err(e) = r {
					return Some(e.to_string());
				}
			}
			None
		}
		Fmt::Msgpack => {
			let mut de = rmp_serde::Deserializer::new(std::io::Cursor::new(b));
			while (de.position() as usize) < b.len() {
				if let Err(e) = IgnoredAny::deserialize(&mut de) {
					return Some(e.to_string());
				}
			}
			None
		}
		Fmt::Yaml => {
			let s = std::str::from_utf8(b).ok()?;
			for de in serde_yaml::Deserializer::from_str(s) {
				if let Err(e) = IgnoredAny::deserialize(de) {
					return Some(e.to_string());
				}
			}
			None
		}
		Fmt::Toml => {
			let s = std::str::from_utf8(b).ok()?;
			toml::Deserializer::new(s).deserialize_any_ignored().err()
		}
	}
}

trait TomlProbe {
	fn deserialize_any_ignored(self) -> Result<(), String>;
}
impl TomlProbe for toml::Deserializer<'_> {
	fn deserialize_any_ignored(self) -> Result<(), String> {
		serde::de::IgnoredAny::deserialize(self).map(|_| ()).map_err(|e| e.to_string())
	}
}

/// Process slice: one failing input through the shipped binary. The diagnostics are made long
/// on purpose in most runs (TOML renders the whole offending line, serde_yaml prefixes the key
/// path of the failing node), because the cause sits at the END of xt's messages.
fn gen_proc(seed: u64, idx: u64) -> J {
	use crate::procsim::{FileSpec, ProcCase, ReadPlan, EIO, ENOSPC};
	let mut r = Rng::derive(seed, "C11p", idx);
	let mut c = ProcCase { bin: if r.chance(1, 2) { "debug" } else { "release" }.to_owned(), ..Default::default() };
	let len = match r.below(4) {
		0 => r.range(1, 200),
		1 => r.range(3900, 4300),
		_ => r.range(2000, 20_000),
	};
	let filler = |r: &mut Rng, n: usize| -> String { (0..n).map(|_| (b'a' + r.below(26) as u8) as char).collect() };
	let shape = *r.pick(&["toml_line", "toml_line", "yaml_path", "yaml_path", "yaml_path_wfail", "json_long", "toml_valid_unrep"]);
	let mut to = *r.pick(&ALL_FMTS);
	let (ext, bytes): (&str, Vec<u8>) = match shape {
		"toml_line" => {
			let x = filler(&mut r, len);
			let t = match r.below(6) {
				0 => format!("k = \"{x}\n"),
				1 => format!("k = [1, 2, \"{x}\"\nj = 1\n"),
				2 => format!("k = \"{x}\" junk\n"),
				3 => format!("a = 1\nk = {{ {x} = 1, {x} = 2 }}\n"),
				4 => format!("{x} = 1\n{x} = 2\n"),
				_ => format!("k = \"{x}\"\n[t]\nv = 2024-13-45\n"),
			};
			("toml", t.into_bytes())
		}
		"toml_valid_unrep" => {
			// valid TOML whose translation the target refuses or that a later defect breaks
			let x = filler(&mut r, len);
			("toml", format!("k = \"{x}\"\nd = 1979-05-27T07:32:00Z\nq = [1, \"{x}\", ]]\n").into_bytes())
		}
		"json_long" => {
			let x = filler(&mut r, len);
			let t = match r.below(3) {
				0 => format!("{{\"{x}\": [1, 2,, 3]}}"),
				1 => format!("[\"{x}\", {{\"a\": tru}}]"),
				_ => format!("{{\"{x}\": {{\"{x}\": nul}}}}"),
			};
			("json", t.into_bytes())
		}
		_ => {
			// nested mappings with long keys; the innermost holds a value or key the target refuses
			// (libyaml limits a simple key to 1024 characters: long paths need depth)
			let depth = r.range(1, 9);
			let klen = (len / depth).clamp(1, if r.chance(1, 20) { 1100 } else { 1000 });
			let mut t = String::from("---\n");
			let flow = r.chance(1, 2);
			let leaf = if shape == "yaml_path_wfail" {
				"[1, 2, 3, \"four\", 5.5]".to_owned()
			} else {
				match to {
					Fmt::Toml => (*r.pick(&["~", "[1, ~]", "{? [1] : 2}"])).to_owned(),
					Fmt::Yaml | Fmt::Msgpack => {
						// these two targets accept everything YAML can express: plant a syntax error instead
						(*r.pick(&["[1, 2", "\"open", "{a: 1, b"])).to_owned()
					}
					Fmt::Json => (*r.pick(&["{~: 1}", "{[1, 2]: 1}", "{{a: 1}: 1}", "{? ~ : x}"])).to_owned(),
				}
			};
			if flow {
				for _ in 0..depth {
					t.push_str(&format!("{{{}: ", filler(&mut r, klen)));
				}
				t.push_str(&leaf);
				for _ in 0..depth {
					t.push('}');
				}
				t.push('\n');
			} else {
				for d in 0..depth {
					t.push_str(&"  ".repeat(d));
					t.push_str(&filler(&mut r, klen));
					t.push_str(":\n");
				}
				t.push_str(&"  ".repeat(depth));
				t.push_str(&format!("leaf: {leaf}\n"));
			}
			("yaml", t.into_bytes())
		}
	};
	if shape == "yaml_path_wfail" {
		to = *r.pick(&STREAM_FMTS);
		let k = r.range(0, bytes.len().min(6000));
		c.wfail = Some((k, if r.chance(1, 2) { ENOSPC } else { EIO }));
	}
	if to != Fmt::Json || r.chance(1, 3) {
		c.args.push(format!("-t{}", to.letter()));
	}
	let name = format!("in.{ext}");
	let sched = gen::gen_sched(&mut r, bytes.len());
	c.nommap = r.chance(1, 2);
	if r.chance(1, 5) {
		c.stdin = Some(bytes);
		c.stdin_plan = Some(ReadPlan { sched, ..Default::default() });
		c.args.push(format!("-f{}", &ext[..1]));
	} else {
		c.files.push(FileSpec { name: name.clone(), kind: "file".into(), bytes, plan: Some(ReadPlan { sched, ..Default::default() }) });
		c.args.push(name);
	}
	if r.chance(1, 3) {
		c.wsched = gen::gen_sched(&mut r, 512);
	}
	c.params.insert("shape".into(), json!(shape));
	c.to_json()
}

fn find(hay: &[u8], needle: &[u8]) -> bool {
	needle.is_empty() || hay.windows(needle.len()).any(|w| w == needle)
}

fn eval_proc(case: &J) -> Eval {
	use crate::procsim;
	let mut ev = Eval::default();
	let Some(c) = procsim::ProcCase::from_json(case) else { return ev };
	ev.count("p.spawn", 1);
	let parsed = procsim::parse_args(&c.args);
	let ex = procsim::expect_run(&c, &parsed);
	ev.execs += 1;
	let o = procsim::run(&c);
	procsim::write_plan_note(&mut ev, &c, &o);
	ev.key = crate::rng::fnv(case.to_string().as_bytes());
	ev.trace = mix(hash_str("cli"), hash_str(&o.status()));
	if !procsim::proc_invariants(&mut ev, &c, &o) {
		return ev;
	}
	let args = format!("{:?}", c.args);
	let shape = c.params.get("shape").and_then(J::as_str).unwrap_or("?").to_owned();
	let tag = format!("{shape}/{}", parsed.to.name());
	let wfired = c.wfail.is_some() && o.log.iter().any(|l| l.starts_with("W ") && l.split(' ').nth(2) == Some("-1"));
	let lib_text = match &ex.failing {
		Some((_, name)) => ex.failure_kind.strip_prefix("translate: ").map(|t| (name.clone(), t.to_owned())),
		None => None,
	};
	if wfired {
		// The consumer failed first (or as well): the operating system's reason must be named -
		// unless the input's own defect was reached before the failing write, in which case
		// the library's text for that defect is the cause.
		let errno = c.wfail.map_or(0, |w| w.1);
		ev.count("cli.wfail.fired", 1);
		ev.count("cli.checked", 1);
		ev.count("cli.long_message", u64::from(o.stderr.len() > 4000));
		ev.nontrivial = true;
		let reason = io::Error::from_raw_os_error(errno).to_string();
		let lib_ok = lib_text.as_ref().is_some_and(|(_, t)| find(&o.stderr, t.as_bytes()));
		if o.code != Some(1) {
			ev.violate(format!("cli/wfail-exit/{tag}"), format!("xt {args}: write(1) failed with errno {errno} but xt ended with {}", o.status()));
		} else if !find(&o.stderr, reason.as_bytes()) && !lib_ok && !(parsed.to == Fmt::Msgpack && (find(&o.stderr, b"invalid value write") || find(&o.stderr, b"invalid marker write"))) {
			// (rmp_serde leaves the io error's text out of its own message by design: see assumptions)
			ev.violate(format!("cli/wfail-reason-missing/{tag}"), format!("xt {args}: write(1) failed with {reason:?}; standard error ({} bytes) does not say so; it ends {:?}", o.stderr.len(), show(&o.stderr[o.stderr.len().saturating_sub(160)..])));
		}
	} else if let Some((name, text)) = lib_text {
		// The library fails on this input: the binary must fail too and print the library's text.
		ev.count("cli.checked", 1);
		ev.count("cli.long_message", u64::from(text.len() > 4000));
		ev.nontrivial = true;
		if o.code != Some(1) {
			ev.violate(format!("cli/exit/{tag}"), format!("xt {args}: the library refuses this input ({:?}) but xt ended with {}", show(text.as_bytes()), o.status()));
		} else if !find(&o.stderr, text.as_bytes()) {
			let tail_at = text.len().saturating_sub(120);
			let what = if find(&o.stderr, text[..text.len().min(60)].as_bytes()) { "reason-cut-off" } else { "reason-missing" };
			ev.violate(
				format!("cli/{what}/{tag}"),
				format!("xt {args}: the library's error text for {name} is {} bytes and ends {:?}; standard error ({} bytes) does not contain it and ends {:?}", text.len(), show(&text.as_bytes()[tail_at..]), o.stderr.len(), show(&o.stderr[o.stderr.len().saturating_sub(120)..])),
			);
		} else if !o.stderr.starts_with(format!("xt error in {name}: ").as_bytes()) {
			ev.violate(format!("cli/prefix/{tag}"), format!("xt {args}: standard error does not name the failing input {name:?}: {:?}", show(&o.stderr)));
		}
	}
	ev
}

fn gen(seed: u64, idx: u64, _t: Tier) -> J {
	if idx % 10 == 9 {
		return gen_proc(seed, idx);
	}
	let mut r = Rng::derive(seed, "C11", idx);
	let mode = *r.pick(&["wfail", "wfail", "syntax", "syntax", "planted", "planted", "planted"]);
	let reader = r.chance(1, 2);
	let mut cfg = GenCfg::common();
	cfg.max_depth = r.range(1, 4);
	cfg.max_len = r.range(1, 4);
	cfg.str_max = 8;
	let mut sc;
	match mode {
		"planted" => {
			let to = *r.pick(&[Fmt::Json, Fmt::Json, Fmt::Yaml, Fmt::Toml]);
			let (off, as_key): (V, bool) = match to {
				Fmt::Json => (r.pick(&[V::Null, V::A(vec![V::I(1)]), V::M(vec![]), V::B(vec![1, 2])]).clone(), true),
				Fmt::Yaml => (V::B(vec![1, 2, 3]), r.chance(1, 3)),
				_ => {
					if r.chance(1, 2) {
						(V::Null, false)
					} else {
						(V::U(u64::MAX), false)
					}
				}
			};
			let f = match (&off, as_key) {
				(V::B(_), _) => Fmt::Msgpack,
				(_, true) => *r.pick(&[Fmt::Msgpack, Fmt::Yaml]),
				_ => *r.pick(&STREAM_FMTS),
			};
			let mut ccfg = if to == Fmt::Toml { GenCfg::toml_safe() } else { cfg };
			ccfg.null = to != Fmt::Toml;
			ccfg.floats = false;
			let mut v = if to == Fmt::Toml { gen::gen_map(&mut r, &ccfg, 0) } else { gen::gen_doc(&mut r, &ccfg) };
			super::c08::plant_pub(&mut r, &mut v, &off, as_key);
			let bytes = match f {
				Fmt::Json => gen::to_json(&v, &mut r, true).into_bytes(),
				Fmt::Msgpack => gen::to_msgpack(&v, &mut r, true),
				_ => [b"---\n".as_slice(), gen::to_yaml_flow(&v).as_bytes(), b"\n"].concat(),
			};
			let sched = gen::gen_sched(&mut r, bytes.len());
			let mut c = Call::reader(bytes, Some(f), sched);
			c.reader = reader;
			sc = Scenario::new(to, vec![c]);
			set_param(&mut sc, "off", v_to_json(&off));
			set_param(&mut sc, "as_key", json!(as_key));
		}
		_ => {
			let to = if mode == "wfail" { *r.pick(&ALL_FMTS) } else { Fmt::Json };
			let f = *r.pick(if mode == "syntax" { &ALL_FMTS[..] } else { &STREAM_FMTS[..] });
			let n = if f == Fmt::Toml || to == Fmt::Toml { 1 } else { r.range(1, 3) };
			let mut ccfg = if to == Fmt::Toml || f == Fmt::Toml { GenCfg::toml_safe() } else { cfg };
			ccfg.bytes = false;
			ccfg.nonstring_keys = false;
			let (stream, _) = gen::gen_stream(&mut r, f, n, &ccfg, true);
			let mut bytes = stream.bytes;
			if to == Fmt::Toml && f != Fmt::Toml {
				// TOML output needs a table root: wrap into one document with a table root.
				let v = gen::gen_map(&mut r, &GenCfg::toml_safe(), 0);
				bytes = match f {
					Fmt::Json => gen::to_json(&v, &mut r, true).into_bytes(),
					Fmt::Msgpack => gen::to_msgpack(&v, &mut r, true),
					_ => [b"---\n".as_slice(), gen::to_yaml_flow(&v).as_bytes(), b"\n"].concat(),
				};
			}
			let sched = gen::gen_sched(&mut r, bytes.len());
			let mut c = Call::reader(bytes, Some(f), sched);
			c.reader = reader;
			sc = Scenario::new(to, vec![c]);
		}
	}
	set_param(&mut sc, "mode", json!(mode));
	sc.to_json()
}

fn positions(n: usize) -> Vec<usize> {
	if n <= 2048 {
		(0..=n).collect()
	} else {
		let mut v: Vec<usize> = (0..=256).collect();
		let stride = n / 1024;
		let mut k = 256;
		while k < n {
			v.push(k);
			k += stride.max(1);
		}
		v.push(n);
		v
	}
}

fn eval(case: &J) -> Eval {
	if case["kind"] == "proc" {
		return eval_proc(case);
	}
	let sc = parse(case);
	let mut ev = Eval::default();
	let mode = sc.param_s("mode").unwrap_or("wfail").to_owned();
	let pinned = sc.param_i("k").map(|k| k as usize);
	let c0 = &sc.calls[0];
	let supply = if c0.reader { "reader" } else { "slice" };
	let tag = format!("{}->{}/{supply}", from_name(c0.from), sc.to.name());
	ev.count(
		match sc.to {
			Fmt::Json => "target.json",
			Fmt::Yaml => "target.yaml",
			Fmt::Msgpack => "target.msgpack",
			Fmt::Toml => "target.toml",
		},
		1,
	);
	let mut any_err = false;
	match mode.as_str() {
		"wfail" => {
			let base = exec::run(&sc);
			global_invariants(&mut ev, &sc, &base, "fault-free twin");
			add_io_counters(&mut ev, &base);
			if !base.verdict(0).is_ok() {
				return ev;
			}
			let ks = pinned.map_or_else(|| positions(base.out.len().saturating_sub(1)), |k| vec![k]);
			for k in ks {
				let mut s = sc.clone();
				s.writer.fault = Some(WFault { at: k, kind: "other".into() });
				let o = exec::run(&s);
				global_invariants(&mut ev, &s, &o, &format!("consumer fails after {k} bytes"));
				add_io_counters(&mut ev, &o);
				if o.wfault_fired == 0 {
					continue;
				}
				ev.count("wfail.fired", 1);
				let next = base.out.get(k).copied().unwrap_or(b'\n');
				ev.count(
					match next {
						b',' | b':' => "wfail.on_separator",
						b'[' | b']' | b'{' | b'}' => "wfail.on_bracket",
						b'\n' | b'-' => "wfail.on_newline_or_marker",
						_ => "wfail.on_scalar_or_string",
					},
					1,
				);
				let Verdict::Err(text) = o.verdict(0) else { continue };
				any_err = true;
				let reason = write_failure_reason(sc.to, &wtoken(k));
				if !text.contains(&reason) {
					let what = if text.starts_with("translation failed") { "bare-translation-failed" } else { "reason-missing" };
					ev.violate(
						format!("wfail/{what}/{tag}"),
						format!("k={k}: the consumer failed with {:?} once {k} bytes were accepted (next output byte would have been {:?}); the serializer's own reason is {reason:?} but the error text is {text:?}", wtoken(k), show(&base.out[k.min(base.out.len())..(k + 1).min(base.out.len())])),
					);
				}
			}
		}
		"syntax" => {
			let f = c0.from.unwrap_or(Fmt::Json);
			let n = c0.bytes.len();
			let ps = pinned.map_or_else(|| positions(n), |k| vec![k]);
			for p in ps {
				if p > n {
					continue;
				}
				// A defect that leaves everything before it untouched: text formats get a
				// control character inserted at p (illegal everywhere, also inside
				// strings and comments); MessagePack is cut after p bytes.
				let b: Vec<u8> = if f == Fmt::Msgpack {
					if p == 0 {
						continue;
					}
					c0.bytes[..p].to_vec()
				} else {
					[&c0.bytes[..p], &[0x01u8][..], &c0.bytes[p..]].concat()
				};
				let Some(parser_msg) = parser_rejects(f, &b) else {
					ev.count("syntax.still_valid", 1);
					continue;
				};
				ev.count("syntax.malformed", 1);
				let mut texts: Vec<(Fmt, String)> = vec![];
				for to in STREAM_FMTS {
					let mut s = sc.clone();
					s.to = to;
					s.calls[0].bytes = b.clone();
					let o = exec::run(&s);
					global_invariants(&mut ev, &s, &o, &format!("syntax error planted at byte {p}"));
					add_io_counters(&mut ev, &o);
					match o.verdict(0) {
						Verdict::Err(t) => texts.push((to, t.clone())),
						Verdict::Ok => ev.violate(format!("syntax/accepted/{}->{}/{supply}", f.name(), to.name()), format!("p={p}: the {} parser rejects the input ({parser_msg}) but xt translated it successfully to {}: input {:?}", f.name(), to.name(), show(&b))),
						Verdict::Panic(_) => {}
					}
				}
				if texts.len() == 3 {
					any_err = true;
					if texts.iter().any(|(_, t)| t != &texts[0].1) {
						ev.violate(format!("syntax/target-dependent/{}/{supply}", f.name()), format!("p={p}: error text for malformed input depends on the output format: {:?}", texts.iter().map(|(t, s)| format!("{}: {s}", t.name())).collect::<Vec<_>>()));
					}
					for (to, t) in &texts {
						if t.contains("translation failed") {
							ev.violate(format!("syntax/translation-failed/{}->{}/{supply}", f.name(), to.name()), format!("p={p}: malformed input reported as {t:?} (parser says {parser_msg:?})"));
						}
					}
				}
			}
		}
		"planted" => {
			let off = sc.params.get("off").and_then(v_from_json);
			let as_key = sc.params.get("as_key").and_then(J::as_bool).unwrap_or(false);
			ev.count(if as_key { "planted.key" } else { "planted.value" }, 1);
			let o = exec::run(&sc);
			global_invariants(&mut ev, &sc, &o, "planted unrepresentable value");
			add_io_counters(&mut ev, &o);
			if let (Some(off), Verdict::Err(text)) = (off, o.verdict(0)) {
				if let Some(reasons) = unrepresentable_reasons(sc.to, &off, as_key) {
					any_err = true;
					ev.count("planted.err", 1);
					if !reasons.iter().any(|r| text.contains(r.as_str())) {
						let what = if text.starts_with("translation failed") { "bare-translation-failed" } else { "reason-missing" };
						ev.violate(format!("planted/{what}/{tag}/{}", if as_key { "key" } else { "value" }), format!("the target serializer's own reason for refusing {off:?} as a map {} is one of {reasons:?}, but the error text is {text:?}", if as_key { "key" } else { "value/element" }));
					}
				}
			}
		}
		_ => {}
	}
	ev.nontrivial = any_err;
	ev.key = key_of(&sc, mix(hash_str(&mode), mix(u64::from(c0.reader), sched_hash(&c0.sched))));
	ev.trace = mix(hash_str(&mode), hash_str(&tag));
	ev
}

fn shrink(case: &J) -> Vec<J> {
	if case["kind"] == "proc" {
		return vec![];
	}
	let sc = parse(case);
	let mut out = vec![];
	let mode = sc.param_s("mode").unwrap_or("");
	if mode != "planted" && sc.param_i("k").is_none() {
		for k in 0..=(sc.calls[0].bytes.len() * 4 + 64).min(3000) {
			let mut s = sc.clone();
			set_param(&mut s, "k", json!(k));
			out.push(s.to_json());
		}
		return out;
	}
	for s in crate::shrink::scenario_shrinks(&sc) {
		out.push(s.to_json());
	}
	if let Some(k) = sc.param_i("k") {
		for nk in [0, k / 2, k - 1] {
			if nk >= 0 && nk < k {
				let mut s = sc.clone();
				set_param(&mut s, "k", json!(nk));
				out.push(s.to_json());
			}
		}
	}
	out
}
