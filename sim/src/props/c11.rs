//! C11 - errors name their true cause.
//!
//! Three defect families, one per run: a consumer that starts failing at
//! EVERY accepted-byte count of the fault-free output (fault enumeration), one
//! unrepresentable value planted at a random tree position, a syntax error
//! planted at EVERY byte position. The expected "reason" texts are obtained by
//! probing the target serializer / source parser directly in the harness.

use std::io::{self, Write};

use serde::Deserialize;
use serde_json::{json, Value as J};

use super::c08::{v_from_json, v_to_json};
use super::common::*;
use crate::exec::{self, Verdict};
use crate::gen::{self, GenCfg, V};
use crate::prop::{Eval, PropDef, Tier};
use crate::rng::{hash_str, mix, Rng};
use crate::scenario::{from_name, Call, Fmt, Scenario, ALL_FMTS, STREAM_FMTS};
use crate::simio::{wtoken, Sched, WFault};

pub static DEF: PropDef = PropDef {
	id: "C11",
	level: "fault_enumeration",
	runs,
	gen,
	eval,
	shrink,
	rule: "run = (generated document(s), source format, slice/reader, target, defect family). wfail: the consumer fails from EVERY accepted-byte count k of the fault-free output (so the failing write is in turn a scalar, string piece, bracket, separator, newline, '---'); syntax: EVERY byte position is overwritten in turn by a syntax-breaking byte and the three streaming targets are compared; planted: one unrepresentable value (null/composite/binary key, binary value, null, oversized integer) at a random position of seq-index / map-key / map-value steps. Non-trivial: at least one enumerated defect produced an error. Distinct = distinct (bytes, formats, family, supply).",
	real: LIB_REAL,
	stub: LIB_STUB,
	assumptions: &[
		"the serializer's 'own reason' is obtained by driving the same serializer crate directly in the harness: with an always-failing writer (write faults) or with the offending value alone (unrepresentable values)",
		"rmp_serde by design omits the io error text from its Display ('invalid value write: ...'); for MessagePack output that phrase is the expected reason",
		"an input counts as malformed when the source format's own parser, driven by the harness into serde's IgnoredAny, rejects it",
	],
	expected_probes: &["wfail.fired", "wfail.on_separator", "wfail.on_scalar_or_string", "wfail.on_bracket", "wfail.on_newline_or_marker", "syntax.malformed", "syntax.still_valid", "planted.key", "planted.value", "planted.err", "target.json", "target.yaml", "target.msgpack", "target.toml"],
	needs_bins: false,
	watchdog_s: 30,
};

fn runs(t: Tier) -> u64 {
	match t {
		Tier::Quick => 8_000,
		Tier::Thorough => 500_000,
	}
}

struct FailingWriter;
impl Write for FailingWriter {
	fn write(&mut self, _: &[u8]) -> io::Result<usize> {
		Err(io::Error::new(io::ErrorKind::Other, "PROBE-TOKEN"))
	}
	fn flush(&mut self) -> io::Result<()> {
		Ok(())
	}
}

/// What the target serializer itself says when its writer fails.
fn write_failure_reason(to: Fmt, token: &str) -> String {
	let probe = V::A(vec![V::I(1)]);
	match to {
		Fmt::Msgpack => {
			let mut s = rmp_serde::Serializer::new(FailingWriter);
			match serde::Serialize::serialize(&probe, &mut s) {
				Err(e) => e.to_string(),
				Ok(()) => token.to_owned(),
			}
		}
		// serde_json, serde_yaml and xt's own write_all for TOML display the io error itself.
		_ => token.to_owned(),
	}
}

/// Candidate reason texts for an unrepresentable value in the given role.
fn unrepresentable_reasons(to: Fmt, off: &V, as_key: bool) -> Option<Vec<String>> {
	let doc = if as_key { V::M(vec![(off.clone(), V::I(1))]) } else if to == Fmt::Toml { V::M(vec![(V::S("k".into()), off.clone())]) } else { V::A(vec![off.clone()]) };
	match to {
		Fmt::Json => serde_json::to_vec(&doc).err().map(|e| vec![e.to_string()]),
		Fmt::Yaml => serde_yaml::to_string(&doc).err().map(|e| vec![e.to_string()]),
		Fmt::Msgpack => rmp_serde::to_vec(&doc).err().map(|e| vec![e.to_string()]),
		Fmt::Toml => {
			let mut v = vec![];
			if let Err(e) = toml::Value::try_from(&doc) {
				v.push(e.to_string());
			}
			// The streaming path builds the value through toml's Deserialize impl;
			// its reason is the "expected ..." part of serde's invalid_type message,
			// or a custom message.
			let mp = rmp_serde::to_vec(&doc).ok()?;
			let mut de = rmp_serde::Deserializer::from_read_ref(&mp);
			if let Err(e) = toml::Value::deserialize(&mut de) {
				let s = e.to_string();
				v.push(s.rsplit(", expected ").next().unwrap_or(&s).to_owned());
				v.push(s);
			}
			if v.is_empty() {
				None
			} else {
				Some(v)
			}
		}
	}
}

/// Does the source format's own parser reject these bytes? Returns its message.
fn parser_rejects(f: Fmt, b: &[u8]) -> Option<String> {
	use serde::de::IgnoredAny;
	match f {
		Fmt::Json => {
			let s = std::str::from_utf8(b).ok()?;
			for r in serde_json::Deserializer::from_str(s).into_iter::<IgnoredAny>() {
				if let Err(e) = r {
					return Some(e.to_string());
				}
			}
			None
		}
		Fmt::Msgpack => {
			let mut de = rmp_serde::Deserializer::new(std::io::Cursor::new(b));
			while (de.position() as usize) < b.len() {
				if let Err(e) = IgnoredAny::deserialize(&mut de) {
					return Some(e.to_string());
				}
			}
			None
		}
		Fmt::Yaml => {
			let s = std::str::from_utf8(b).ok()?;
			for de in serde_yaml::Deserializer::from_str(s) {
				if let Err(e) = IgnoredAny::deserialize(de) {
					return Some(e.to_string());
				}
			}
			None
		}
		Fmt::Toml => {
			let s = std::str::from_utf8(b).ok()?;
			toml::Deserializer::new(s).deserialize_any_ignored().err()
		}
	}
}

trait TomlProbe {
	fn deserialize_any_ignored(self) -> Result<(), String>;
}
impl TomlProbe for toml::Deserializer<'_> {
	fn deserialize_any_ignored(self) -> Result<(), String> {
		serde::de::IgnoredAny::deserialize(self).map(|_| ()).map_err(|e| e.to_string())
	}
}

fn gen(seed: u64, idx: u64, _t: Tier) -> J {
	let mut r = Rng::derive(seed, "C11", idx);
	let mode = *r.pick(&["wfail", "wfail", "syntax", "syntax", "planted", "planted", "planted"]);
	let reader = r.chance(1, 2);
	let mut cfg = GenCfg::common();
	cfg.max_depth = r.range(1, 4);
	cfg.max_len = r.range(1, 4);
	cfg.str_max = 8;
	let mut sc;
	match mode {
		"planted" => {
			let to = *r.pick(&[Fmt::Json, Fmt::Json, Fmt::Yaml, Fmt::Toml]);
			let (off, as_key): (V, bool) = match to {
				Fmt::Json => (r.pick(&[V::Null, V::A(vec![V::I(1)]), V::M(vec![]), V::B(vec![1, 2])]).clone(), true),
				Fmt::Yaml => (V::B(vec![1, 2, 3]), r.chance(1, 3)),
				_ => {
					if r.chance(1, 2) {
						(V::Null, false)
					} else {
						(V::U(u64::MAX), false)
					}
				}
			};
			let f = match (&off, as_key) {
				(V::B(_), _) => Fmt::Msgpack,
				(_, true) => *r.pick(&[Fmt::Msgpack, Fmt::Yaml]),
				_ => *r.pick(&STREAM_FMTS),
			};
			let mut ccfg = if to == Fmt::Toml { GenCfg::toml_safe() } else { cfg };
			ccfg.null = to != Fmt::Toml;
			ccfg.floats = false;
			let mut v = if to == Fmt::Toml { gen::gen_map(&mut r, &ccfg, 0) } else { gen::gen_doc(&mut r, &ccfg) };
			super::c08::plant_pub(&mut r, &mut v, &off, as_key);
			let bytes = match f {
				Fmt::Json => gen::to_json(&v, &mut r, true).into_bytes(),
				Fmt::Msgpack => gen::to_msgpack(&v, &mut r, true),
				_ => [b"---\n".as_slice(), gen::to_yaml_flow(&v).as_bytes(), b"\n"].concat(),
			};
			let sched = gen::gen_sched(&mut r, bytes.len());
			let mut c = Call::reader(bytes, Some(f), sched);
			c.reader = reader;
			sc = Scenario::new(to, vec![c]);
			set_param(&mut sc, "off", v_to_json(&off));
			set_param(&mut sc, "as_key", json!(as_key));
		}
		_ => {
			let to = if mode == "wfail" { *r.pick(&ALL_FMTS) } else { Fmt::Json };
			let f = *r.pick(if mode == "syntax" { &ALL_FMTS[..] } else { &STREAM_FMTS[..] });
			let n = if f == Fmt::Toml || to == Fmt::Toml { 1 } else { r.range(1, 3) };
			let mut ccfg = if to == Fmt::Toml || f == Fmt::Toml { GenCfg::toml_safe() } else { cfg };
			ccfg.bytes = false;
			ccfg.nonstring_keys = false;
			let (stream, _) = gen::gen_stream(&mut r, f, n, &ccfg, true);
			let mut bytes = stream.bytes;
			if to == Fmt::Toml && f != Fmt::Toml {
				// TOML output needs a table root: wrap into one document with a table root.
				let v = gen::gen_map(&mut r, &GenCfg::toml_safe(), 0);
				bytes = match f {
					Fmt::Json => gen::to_json(&v, &mut r, true).into_bytes(),
					Fmt::Msgpack => gen::to_msgpack(&v, &mut r, true),
					_ => [b"---\n".as_slice(), gen::to_yaml_flow(&v).as_bytes(), b"\n"].concat(),
				};
			}
			let sched = gen::gen_sched(&mut r, bytes.len());
			let mut c = Call::reader(bytes, Some(f), sched);
			c.reader = reader;
			sc = Scenario::new(to, vec![c]);
		}
	}
	set_param(&mut sc, "mode", json!(mode));
	sc.to_json()
}

fn positions(n: usize) -> Vec<usize> {
	if n <= 2048 {
		(0..=n).collect()
	} else {
		let mut v: Vec<usize> = (0..=256).collect();
		let stride = n / 1024;
		let mut k = 256;
		while k < n {
			v.push(k);
			k += stride.max(1);
		}
		v.push(n);
		v
	}
}

fn eval(case: &J) -> Eval {
	let sc = parse(case);
	let mut ev = Eval::default();
	let mode = sc.param_s("mode").unwrap_or("wfail").to_owned();
	let pinned = sc.param_i("k").map(|k| k as usize);
	let c0 = &sc.calls[0];
	let supply = if c0.reader { "reader" } else { "slice" };
	let tag = format!("{}->{}/{supply}", from_name(c0.from), sc.to.name());
	ev.count(
		match sc.to {
			Fmt::Json => "target.json",
			Fmt::Yaml => "target.yaml",
			Fmt::Msgpack => "target.msgpack",
			Fmt::Toml => "target.toml",
		},
		1,
	);
	let mut any_err = false;
	match mode.as_str() {
		"wfail" => {
			let base = exec::run(&sc);
			global_invariants(&mut ev, &sc, &base, "fault-free twin");
			add_io_counters(&mut ev, &base);
			if !base.verdict(0).is_ok() {
				return ev;
			}
			let ks = pinned.map_or_else(|| positions(base.out.len().saturating_sub(1)), |k| vec![k]);
			for k in ks {
				let mut s = sc.clone();
				s.writer.fault = Some(WFault { at: k, kind: "other".into() });
				let o = exec::run(&s);
				global_invariants(&mut ev, &s, &o, &format!("consumer fails after {k} bytes"));
				add_io_counters(&mut ev, &o);
				if o.wfault_fired == 0 {
					continue;
				}
				ev.count("wfail.fired", 1);
				let next = base.out.get(k).copied().unwrap_or(b'\n');
				ev.count(
					match next {
						b',' | b':' => "wfail.on_separator",
						b'[' | b']' | b'{' | b'}' => "wfail.on_bracket",
						b'\n' | b'-' => "wfail.on_newline_or_marker",
						_ => "wfail.on_scalar_or_string",
					},
					1,
				);
				let Verdict::Err(text) = o.verdict(0) else { continue };
				any_err = true;
				let reason = write_failure_reason(sc.to, &wtoken(k));
				if !text.contains(&reason) {
					let what = if text.starts_with("translation failed") { "bare-translation-failed" } else { "reason-missing" };
					ev.violate(
						format!("wfail/{what}/{tag}"),
						format!("k={k}: the consumer failed with {:?} once {k} bytes were accepted (next output byte would have been {:?}); the serializer's own reason is {reason:?} but the error text is {text:?}", wtoken(k), show(&base.out[k.min(base.out.len())..(k + 1).min(base.out.len())])),
					);
				}
			}
		}
		"syntax" => {
			let f = c0.from.unwrap_or(Fmt::Json);
			let n = c0.bytes.len();
			let ps = pinned.map_or_else(|| positions(n), |k| vec![k]);
			for p in ps {
				if p > n {
					continue;
				}
				// A defect that leaves everything before it untouched: text formats get a
				// control character inserted at p (illegal everywhere, also inside
				// strings and comments); MessagePack is cut after p bytes.
				let b: Vec<u8> = if f == Fmt::Msgpack {
					if p == 0 {
						continue;
					}
					c0.bytes[..p].to_vec()
				} else {
					[&c0.bytes[..p], &[0x01u8][..], &c0.bytes[p..]].concat()
				};
				let Some(parser_msg) = parser_rejects(f, &b) else {
					ev.count("syntax.still_valid", 1);
					continue;
				};
				ev.count("syntax.malformed", 1);
				let mut texts: Vec<(Fmt, String)> = vec![];
				for to in STREAM_FMTS {
					let mut s = sc.clone();
					s.to = to;
					s.calls[0].bytes = b.clone();
					let o = exec::run(&s);
					global_invariants(&mut ev, &s, &o, &format!("syntax error planted at byte {p}"));
					add_io_counters(&mut ev, &o);
					match o.verdict(0) {
						Verdict::Err(t) => texts.push((to, t.clone())),
						Verdict::Ok => ev.violate(format!("syntax/accepted/{}->{}/{supply}", f.name(), to.name()), format!("p={p}: the {} parser rejects the input ({parser_msg}) but xt translated it successfully to {}: input {:?}", f.name(), to.name(), show(&b))),
						Verdict::Panic(_) => {}
					}
				}
				if texts.len() == 3 {
					any_err = true;
					if texts.iter().any(|(_, t)| t != &texts[0].1) {
						ev.violate(format!("syntax/target-dependent/{}/{supply}", f.name()), format!("p={p}: error text for malformed input depends on the output format: {:?}", texts.iter().map(|(t, s)| format!("{}: {s}", t.name())).collect::<Vec<_>>()));
					}
					for (to, t) in &texts {
						if t.contains("translation failed") {
							ev.violate(format!("syntax/translation-failed/{}->{}/{supply}", f.name(), to.name()), format!("p={p}: malformed input reported as {t:?} (parser says {parser_msg:?})"));
						}
					}
				}
			}
		}
		"planted" => {
			let off = sc.params.get("off").and_then(v_from_json);
			let as_key = sc.params.get("as_key").and_then(J::as_bool).unwrap_or(false);
			ev.count(if as_key { "planted.key" } else { "planted.value" }, 1);
			let o = exec::run(&sc);
			global_invariants(&mut ev, &sc, &o, "planted unrepresentable value");
			add_io_counters(&mut ev, &o);
			if let (Some(off), Verdict::Err(text)) = (off, o.verdict(0)) {
				if let Some(reasons) = unrepresentable_reasons(sc.to, &off, as_key) {
					any_err = true;
					ev.count("planted.err", 1);
					if !reasons.iter().any(|r| text.contains(r.as_str())) {
						let what = if text.starts_with("translation failed") { "bare-translation-failed" } else { "reason-missing" };
						ev.violate(format!("planted/{what}/{tag}/{}", if as_key { "key" } else { "value" }), format!("the target serializer's own reason for refusing {off:?} as a map {} is one of {reasons:?}, but the error text is {text:?}", if as_key { "key" } else { "value/element" }));
					}
				}
			}
		}
		_ => {}
	}
	ev.nontrivial = any_err;
	ev.key = key_of(&sc, mix(hash_str(&mode), mix(u64::from(c0.reader), sched_hash(&c0.sched))));
	ev.trace = mix(hash_str(&mode), hash_str(&tag));
	ev
}

fn shrink(case: &J) -> Vec<J> {
	let sc = parse(case);
	let mut out = vec![];
	let mode = sc.param_s("mode").unwrap_or("");
	if mode != "planted" && sc.param_i("k").is_none() {
		for k in 0..=(sc.calls[0].bytes.len() * 4 + 64).min(3000) {
			let mut s = sc.clone();
			set_param(&mut s, "k", json!(k));
			out.push(s.to_json());
		}
		return out;
	}
	for s in crate::shrink::scenario_shrinks(&sc) {
		out.push(s.to_json());
	}
	if let Some(k) = sc.param_i("k") {
		for nk in [0, k / 2, k - 1] {
			if nk >= 0 && nk < k {
				let mut s = sc.clone();
				set_param(&mut s, "k", json!(nk));
				out.push(s.to_json());
			}
		}
	}
	out
}
