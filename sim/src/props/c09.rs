//! C09 - format detection is a transparent, total pre-selection step.
//!
//! Two kinds of runs. "lib": (bytes, supply mode, read schedule, target) -
//! detection's answer (verif hook) vs. the explicit run it must equal, slice /
//! reader agreement, totality under a fault-free producer, fault propagation.
//! "program": a program of partial reads, prefix requests and re-borrows on
//! the rewindable input handle (verif hook), checked step by step against the
//! reference model "a borrow always sees the stream from offset 0".

use std::cell::RefCell;
use std::io::Read;
use std::rc::Rc;

use serde_json::{json, Value as J};
use xt::verif::{Handle, Owned, RefOp, RefOpResult};

use super::common::*;
use crate::exec::{self, guarded, Verdict};
use crate::gen::{self, GenCfg};
use crate::prop::{Eval, PropDef, Tier};
use crate::rng::{fnv, hash_str, mix, Rng};
use crate::scenario::{hex, unhex, Call, Fmt, Scenario, ALL_FMTS, STREAM_FMTS};
use crate::simio::{rtoken, Log, RFault, Sched, SimReader, RKINDS};

pub static DEF: PropDef = PropDef {
	id: "C09",
	level: "exploration",
	runs,
	gen,
	eval,
	shrink,
	rule: "two run kinds. program: the first run indices enumerate EVERY program of <= L operations (L=3 quick, 4 thorough) over {read n, prefix n, re-borrow} x both ways of taking ownership x every data size <= 4 x every chunking of the data; later indices sample longer programs over data up to 64 KiB with random producer schedules. lib: valid streams of each format, all their truncations, token sequences, inputs starting with a MessagePack collection marker or with U+0700-U+07FF, inputs several formats accept, UTF-16/32 YAML (also cut inside a code unit), random bytes; slice and reader with drawn schedules; optional persistent producer fault. Non-trivial: program re-borrowed after a partial read or flipped to slice mode; lib run consulted >= 2 format trials (first byte not decisive). Distinct = distinct (case content).",
	real: LIB_REAL,
	stub: LIB_STUB,
	assumptions: &["the `verif` hook returns detect_format's own answer and exposes input::Handle without adding logic", "error texts ARE compared between the detected run and the explicit run of the detected format (the statement requires identical outcome)"],
	expected_probes: &["kind.program", "kind.lib", "program.eintr.fired", "program.flipped_to_slice", "program.reborrow_after_partial_read", "program.into_cow", "program.into_input.reader", "program.into_input.slice", "lib.detected.json", "lib.detected.msgpack", "lib.detected.yaml", "lib.detected.toml", "lib.undetected", "lib.agreement_checked", "lib.fault.fired", "lib.msgpack_marker_first", "lib.u0700_first", "lib.truncated", "lib.near_2mib_toml", "lib.boundary_utf8"],
	needs_bins: false,
	watchdog_s: 30,
};

const OPS: usize = 14; // read 0,1,2,3,5 | prefix 0,1,2,3,5 | re-borrow | read_exact 1,3 | read_to_end
const SIZES: [usize; 5] = [0, 1, 2, 3, 5];

fn prog_len(t: Tier) -> usize {
	match t {
		Tier::Quick => 3,
		Tier::Thorough => 4,
	}
}

fn n_programs(l: usize) -> u64 {
	(0..=l).map(|k| (OPS as u64).pow(k as u32)).sum()
}

/// (data length, chunking) pairs: every composition of every length 0..=4.
fn chunkings() -> Vec<(usize, Vec<u32>)> {
	let mut out = vec![(0usize, vec![])];
	for len in 1..=4usize {
		for mask in 0..(1u32 << (len - 1)) {
			let mut list = vec![];
			let mut cur = 1u32;
			for i in 0..len - 1 {
				if mask & (1 << i) != 0 {
					list.push(cur);
					cur = 1;
				} else {
					cur += 1;
				}
			}
			list.push(cur);
			out.push((len, list));
		}
	}
	out
}

fn exhaustive_total(t: Tier) -> u64 {
	n_programs(prog_len(t)) * 2 * chunkings().len() as u64
}

fn runs(t: Tier) -> u64 {
	exhaustive_total(t)
		+ match t {
			Tier::Quick => 120_000,
			Tier::Thorough => 6_000_000,
		}
}

fn op_json(code: usize) -> J {
	if code == 10 {
		json!("reborrow")
	} else if code == 11 || code == 12 {
		json!({"exact": if code == 11 { 1 } else { 3 }})
	} else if code == 13 {
		json!("toend")
	} else if code < 5 {
		json!({"read": SIZES[code]})
	} else {
		json!({"prefix": SIZES[code - 5]})
	}
}

fn gen_program(seed: u64, idx: u64, t: Tier) -> J {
	let total = exhaustive_total(t);
	if idx < total {
		let ch = chunkings();
		let np = n_programs(prog_len(t));
		let (pi, rest) = (idx % np, idx / np);
		let (fin, ci) = (rest % 2, (rest / 2) as usize);
		// decode program index: length-then-lexicographic
		let mut i = pi;
		let mut ops = vec![];
		let mut count = 1u64;
		for len in 0..=prog_len(t) {
			if i < count {
				let mut codes = vec![0usize; len];
				for slot in (0..len).rev() {
					codes[slot] = (i % OPS as u64) as usize;
					i /= OPS as u64;
				}
				ops = codes.into_iter().map(op_json).collect();
				break;
			}
			i -= count;
			count *= OPS as u64;
		}
		let (len, list) = &ch[ci];
		let data: Vec<u8> = (0..*len).map(|k| b'a' + k as u8).collect();
		return json!({"kind": "program", "hex": hex(&data), "sched": {"list": list, "cycle": false}, "ops": ops, "final": if fin == 0 { "input" } else { "cow" }, "exhaustive": true});
	}
	let mut r = Rng::derive(seed, "C09p", idx);
	let len = if r.chance(1, 6) { r.log_range(1, 65536) } else { r.range(0, 64) };
	let data: Vec<u8> = (0..len).map(|_| r.next() as u8).collect();
	let nops = r.range(1, 14);
	let mut ops = vec![];
	for _ in 0..nops {
		let big = |r: &mut Rng| if r.chance(1, 5) { r.log_range(1, 70_000) } else { r.range(0, 40) };
		ops.push(match r.below(9) {
			0..=2 => json!({"read": big(&mut r)}),
			3 | 4 => json!({"prefix": big(&mut r)}),
			5 => json!({"exact": if r.chance(1, 2) { r.range(0, 9) } else { big(&mut r) }}),
			6 if r.chance(1, 3) => json!("toend"),
			_ => json!("reborrow"),
		});
	}
	let sched = gen::gen_sched(&mut r, len);
	// A quarter of the sampled programs meet one or two transient producer errors (EINTR).
	let eintr: Vec<u32> = if r.chance(1, 4) { (0..r.range(1, 2)).map(|_| r.range(0, 12) as u32).collect() } else { vec![] };
	json!({"kind": "program", "hex": hex(&data), "sched": crate::scenario::sched_to_json(&sched), "ops": ops, "final": if r.chance(1, 2) { "input" } else { "cow" }, "eintr": eintr, "exhaustive": false})
}

fn gen(seed: u64, idx: u64, t: Tier) -> J {
	let ex = exhaustive_total(t);
	if idx < ex || (idx - ex) % 3 == 0 {
		return gen_program(seed, if idx < ex { idx } else { ex + (idx - ex) / 3 }, t);
	}
	let mut r = Rng::derive(seed, "C09", idx);
	let fam = r.below(100);
	let mut family = "valid";
	let bytes: Vec<u8> = if idx % 997 == 5 {
		// Just under the 2 MiB cut-off above which TOML detection from a reader is switched off.
		family = "near_2mib";
		let total = 2 * 1024 * 1024 - r.range(1, 3);
		let head = "a = \"";
		let tail = "\"\nb = 1\n";
		let mut s = String::with_capacity(total);
		s.push_str(head);
		while s.len() + tail.len() < total {
			s.push('x');
		}
		s.push_str(tail);
		s.into_bytes()
	} else if idx % 13 == 4 {
		// Real MessagePack that starts like text: an array 16 / map 16 whose length field
		// begins with a UTF-8 continuation byte (32768-49151 entries), printable one-byte
		// values first, anything afterwards.
		family = "msgpack_text_like";
		let map = r.chance(1, 3);
		let n = r.range(0x8000, 0xbfff);
		let mut b = vec![if map { 0xde } else { 0xdc }, (n >> 8) as u8, n as u8];
		let ascii_head = r.range(0, 200);
		let values = if map { 2 * n } else { n };
		for i in 0..values {
			if i < ascii_head || r.chance(9, 10) {
				b.push(0x20 + r.below(0x5f) as u8);
			} else {
				match r.below(4) {
					0 => b.push(0xc0),
					1 => b.extend_from_slice(&[0xcc, r.next() as u8]),
					2 => b.extend_from_slice(&[0xa2, b'h', b'i']),
					_ => b.push(0xc3),
				}
			}
		}
		if r.chance(1, 4) {
			let cut = r.range(0, b.len());
			b.truncate(cut);
		}
		b
	} else if idx % 11 == 7 {
		family = "boundary_utf8";
		let fm = *r.pick(&[Fmt::Json, Fmt::Yaml, Fmt::Toml, Fmt::Toml]);
		gen::boundary_text(&mut r, fm)
	} else if fam < 25 {
		corpus_stream(&mut r, 4).1.bytes
	} else if fam < 45 {
		family = "truncated";
		let b = corpus_stream(&mut r, 3).1.bytes;
		let n = r.range(0, b.len());
		b[..n].to_vec()
	} else if fam < 55 {
		family = "msgpack_marker_first";
		let mut b = vec![*r.pick(&[0x90u8, 0x91, 0x92, 0x9f, 0x80, 0x81, 0x8f, 0xdc, 0xdd, 0xde, 0xdf])];
		let n = r.range(0, 12);
		if r.chance(1, 2) {
			let (_, s) = corpus_stream(&mut r, 1);
			b.extend_from_slice(&s.bytes[..n.min(s.bytes.len())]);
		} else {
			b.extend((0..n).map(|_| r.next() as u8));
		}
		b
	} else if fam < 63 {
		family = "u0700_first";
		let c = char::from_u32(0x700 + r.below(0x100) as u32).unwrap_or('\u{700}');
		let tail = *r.pick(&["", ": 1\n", "\n", " = 1\n", "a: [1, 2]\n", ":\n  - x\n"]);
		// The MessagePack trial walks this text as if it were binary; let the walk end in every
		// kind of fixed-width read (Cyrillic D0/D1, Greek CE/CF, accents C3, CJK E4-E9 ...),
		// complete or cut short by the end of the input.
		let mut extra = String::new();
		for _ in 0..r.range(0, 6) {
			extra.push_str(*r.pick(&["\u{44f}", "\u{3b1}", "\u{e9}", "\u{65e5}", "k: ", "\n", "x", "\u{416}\u{416}", "\u{3c9}\n", "\u{1F600}"]));
		}
		format!("{c}{tail}{extra}").into_bytes()
	} else if fam < 73 {
		family = "ambiguous";
		(*r.pick(&["[a]\n", "{}", "[]", "[a]\nb = 1\n", "a = 1\n", "a: 1\n", "[1, 2]\n", "{\"a\": 1}", "[[a]]\n", "a = \"x: y\"\n", "[a.b]\n", "---\n- 1\n", "1", "\"s\"", "null", "# c\n[a]\n", "a:\n  b = 1\n", "{a: 1}\n", "[a]\n--- = \"\u{81}\"\n", "[a]\n--- = 1\n"])).as_bytes().to_vec()
	} else if fam < 83 {
		family = "utf16_32";
		let mut cfg = GenCfg::common();
		cfg.max_depth = 2;
		let (s, _) = gen::gen_stream(&mut r, Fmt::Yaml, 1, &cfg, true);
		let text = String::from_utf8_lossy(&s.bytes).into_owned();
		let mut b = super::c02::encode_utf(&text, r.usize_below(4), r.chance(1, 2));
		if r.chance(1, 2) {
			let n = r.range(0, b.len());
			b.truncate(n);
		}
		b
	} else if fam < 93 {
		family = "tokens";
		let fm = *r.pick(&ALL_FMTS);
		let n = r.range(1, 8);
		gen::random_tokens(&mut r, &gen::alphabet(fm), n)
	} else {
		family = "random";
		let n = r.range(0, 24);
		(0..n).map(|_| r.next() as u8).collect()
	};
	let reader = r.chance(2, 3);
	let sched = if reader { gen::gen_sched(&mut r, bytes.len()) } else { Sched::whole() };
	let sched = if bytes.len() > 100_000 && sched.cycle && sched.list.iter().all(|n| *n < 1024) { Sched::bytes(r.range(4096, 70_000) as u32) } else { sched };
	let mut c = Call::reader(bytes, None, sched);
	c.reader = reader;
	if reader && r.chance(1, 6) {
		c.rfault = Some(RFault { at: r.range(0, c.bytes.len()), kind: RKINDS[r.usize_below(RKINDS.len())].0.to_owned() });
	}
	let mut sc = Scenario::new(*r.pick(&STREAM_FMTS), vec![c]);
	set_param(&mut sc, "family", json!(family));
	let mut j = sc.to_json();
	j["kind"] = json!("lib");
	j
}

fn detect_with(bytes: &[u8], reader: bool, sched: &Sched, fault: Option<RFault>) -> (Result<Option<Fmt>, String>, Verdict, u64) {
	let mut res: Result<Option<Fmt>, String> = Ok(None);
	let mut fired = 0;
	let v = if reader {
		let log = Rc::new(RefCell::new(Log { counting_only: true, ..Log::default() }));
		let rd = SimReader::new(0, Rc::new(bytes.to_vec()), sched.clone(), fault, vec![], None, log);
		let st = rd.stats.clone();
		let v = guarded(|| {
			res = xt::verif::detect_reader(rd).map(|o| o.map(Fmt::from_xt)).map_err(|e| e.to_string());
			Ok(())
		});
		fired = st.borrow().fault_fired;
		v
	} else {
		guarded(|| {
			res = xt::verif::detect_slice(bytes).map(|o| o.map(Fmt::from_xt)).map_err(|e| e.to_string());
			Ok(())
		})
	};
	(res, v, fired)
}

fn fmt_name(f: Option<Fmt>) -> &'static str {
	f.map_or("none", Fmt::name)
}

fn eval_lib(case: &J) -> Eval {
	let sc = parse(case);
	let mut ev = Eval::default();
	ev.count("kind.lib", 1);
	let c0 = &sc.calls[0];
	let supply = if c0.reader { "reader" } else { "slice" };
	match sc.param_s("family").unwrap_or("") {
		"msgpack_marker_first" => ev.count("lib.msgpack_marker_first", 1),
		"u0700_first" => ev.count("lib.u0700_first", 1),
		"msgpack_text_like" => ev.count("lib.msgpack_text_like", 1),
		"truncated" => ev.count("lib.truncated", 1),
		"near_2mib" => ev.count("lib.near_2mib_toml", 1),
		"boundary_utf8" => ev.count("lib.boundary_utf8", 1),
		_ => {}
	}
	if let Some(f) = &c0.rfault {
		// (c) fault propagation: Err carrying the producer's text, or a verdict - never a panic.
		let (res, v, fired) = detect_with(&c0.bytes, true, &c0.sched, Some(f.clone()));
		ev.execs += 1;
		if let Verdict::Panic(p) = v {
			ev.violate(format!("detect/panic/{supply}"), format!("detection panicked under a producer fault at {}: {p}", f.at));
		}
		if fired > 0 {
			ev.count("lib.fault.fired", 1);
			if let Err(t) = &res {
				if !t.contains(&rtoken(f.at)) {
					ev.violate(format!("detect/fault-text-lost/{}", f.kind), format!("detection failed under a producer fault ({}) at offset {} but the error {t:?} does not carry the producer's text", f.kind, f.at));
				}
			}
		}
		ev.nontrivial = fired > 0;
		ev.key = mix(fnv(&c0.bytes), mix(f.at as u64, sched_hash(&c0.sched)));
		ev.trace = hash_str("fault");
		return ev;
	}
	// (c) totality under a fault-free producer.
	let (res, v, _) = detect_with(&c0.bytes, c0.reader, &c0.sched, None);
	ev.execs += 1;
	if let Verdict::Panic(p) = &v {
		ev.violate(format!("detect/panic/{supply}"), format!("detection panicked: {p}"));
		return ev;
	}
	let first = c0.bytes.first().copied();
	let det = match res {
		Ok(d) => d,
		Err(t) => {
			ev.violate(format!("detect/error-without-io-fault/{supply}/first-byte-{}", first.map_or("none".into(), |b| if b >= 0x80 { "high".to_owned() } else { "ascii".to_owned() })), format!("the producer never failed, yet detection returned the error {t:?} for input {:?}", show(&c0.bytes)));
			return ev;
		}
	};
	ev.count(
		match det {
			Some(Fmt::Json) => "lib.detected.json",
			Some(Fmt::Msgpack) => "lib.detected.msgpack",
			Some(Fmt::Yaml) => "lib.detected.yaml",
			Some(Fmt::Toml) => "lib.detected.toml",
			None => "lib.undetected",
		},
		1,
	);
	// (a) transparency.
	let o = exec::run(&sc);
	global_invariants(&mut ev, &sc, &o, "detected run");
	add_io_counters(&mut ev, &o);
	match det {
		None => match o.verdict(0) {
			Verdict::Err(t) if t == "unable to detect input format" && o.out.is_empty() => {}
			other => ev.violate(format!("transparency/undetected/{supply}"), format!("detection selects no format, but the translation ended with {} {:?} and {} output bytes", other.kind(), other.text(), o.out.len())),
		},
		Some(f) => {
			let mut s2 = sc.clone();
			s2.calls[0].from = Some(f);
			let o2 = exec::run(&s2);
			global_invariants(&mut ev, &s2, &o2, "explicit run");
			add_io_counters(&mut ev, &o2);
			let (v1, v2) = (o.verdict(0), o2.verdict(0));
			if v1.code() != 2 && v2.code() != 2 {
				if v1.kind() != v2.kind() {
					ev.violate(format!("transparency/verdict/{}/{supply}/{}-vs-{}", f.name(), v1.kind(), v2.kind()), format!("detected as {} but the detected run ended {} ({:?}) and the explicit run {} ({:?})", f.name(), v1.kind(), v1.text(), v2.kind(), v2.text()));
				} else if o.out != o2.out {
					ev.violate(format!("transparency/bytes/{}/{supply}", f.name()), format!("detected as {}: output differs from the explicit run at byte {}: {:?} vs {:?}", f.name(), first_diff(&o.out, &o2.out), show(&o.out), show(&o2.out)));
				} else if v1.text() != v2.text() {
					ev.violate(format!("transparency/text/{}", f.name()), format!("detected as {}: error text {:?} differs from the explicit run's {:?}", f.name(), v1.text(), v2.text()));
				}
			}
		}
	}
	// (b) agreement of slice and reader detection for inputs that translate successfully.
	if o.verdict(0).is_ok() {
		ev.count("lib.agreement_checked", 1);
		let (ds, _, _) = detect_with(&c0.bytes, false, &Sched::whole(), None);
		let mut answers = vec![("slice".to_owned(), ds)];
		let small = if c0.bytes.len() > 100_000 { Sched::bytes(65_536) } else if c0.bytes.len() > 6000 { Sched::bytes(8192) } else { Sched::bytes(1) };
		for (name, s) in [("reader(drawn)", c0.sched.clone()), ("reader(1-byte)", small), ("reader(whole)", Sched::whole())] {
			let (d, _, _) = detect_with(&c0.bytes, true, &s, None);
			answers.push((name.to_owned(), d));
		}
		ev.execs += 4;
		for (name, a) in &answers[1..] {
			if *a != answers[0].1 {
				ev.violate(format!("agreement/{}-vs-{}", answers[0].1.as_ref().map_or("err", |d| fmt_name(*d)), a.as_ref().map_or("err", |d| fmt_name(*d))), format!("input translates successfully but is detected as {:?} from a slice and {:?} from {name}: {:?}", answers[0].1, a, show(&c0.bytes)));
				break;
			}
		}
	}
	// Non-trivial: the first byte alone does not decide (at least two trials consulted).
	ev.nontrivial = !matches!(det, Some(Fmt::Msgpack)) && !c0.bytes.is_empty();
	ev.key = mix(fnv(&c0.bytes), mix(sched_hash(&c0.sched), u64::from(c0.reader)));
	ev.trace = mix(o.trace_hash(), det.map_or(9, |f| f as u64));
	ev
}

// ------------------------------------------------------------------ handle programs

fn eval_program(case: &J) -> Eval {
	let mut ev = Eval::default();
	ev.count("kind.program", 1);
	let data = case["hex"].as_str().and_then(unhex).unwrap_or_default();
	let sched = crate::scenario::sched_from_json(&case["sched"]).unwrap_or_default();
	let ops: Vec<J> = case["ops"].as_array().cloned().unwrap_or_default();
	let fin = case["final"].as_str().unwrap_or("input").to_owned();
	let log = Rc::new(RefCell::new(Log { counting_only: true, ..Log::default() }));
	let eintr: Vec<u32> = case["eintr"].as_array().map(|a| a.iter().filter_map(|x| x.as_u64().map(|v| v as u32)).collect()).unwrap_or_default();
	let rd = SimReader::new(0, Rc::new(data.clone()), sched.clone(), None, eintr.clone(), None, log);
	let st = rd.stats.clone();
	let d = data.clone();
	let mut viol: Vec<(String, String)> = vec![];
	let mut flipped = false;
	let mut reborrow_after_partial = false;
	let mut fin_kind = "";
	let mut n_exact = 0u64;
	let mut short_exact = false;
	let v = guarded(|| {
		let mut h = Handle::from_reader(rd);
		// Group operations into borrows.
		let mut groups: Vec<Vec<RefOp>> = vec![vec![]];
		for op in &ops {
			if op.as_str() == Some("reborrow") {
				groups.push(vec![]);
			} else if let Some(n) = op.get("read").and_then(J::as_u64) {
				groups.last_mut().unwrap().push(RefOp::Read(n as usize));
			} else if let Some(n) = op.get("prefix").and_then(J::as_u64) {
				groups.last_mut().unwrap().push(RefOp::Prefix(n as usize));
			} else if let Some(n) = op.get("exact").and_then(J::as_u64) {
				groups.last_mut().unwrap().push(RefOp::ReadExact(n as usize));
			} else if op.as_str() == Some("toend") {
				groups.last_mut().unwrap().push(RefOp::ReadToEnd);
			}
		}
		// Reference model: within a borrow, `pos` bytes of D have been read; the
		// producer may be asked for at most `reach` bytes in total.
		let mut reach = 0usize;
		let mut prev_partial = false;
		let _ = (&n_exact, &short_exact);
		for (gi, g) in groups.iter().enumerate() {
			if gi > 0 && prev_partial {
				reborrow_after_partial = true;
			}
			let mut pos = 0usize;
			let eintr_before = st.borrow().eintr_fired;
			let results = h.borrow_ops(g);
			// read_exact and read_to_end retry an Interrupted read themselves. When one of
			// them absorbed a transient error, the position of this borrow is unspecified
			// from that operation on (as after a surfaced error).
			let surfaced = results.iter().filter(|r| matches!(r, RefOpResult::Read(Err(e)) | RefOpResult::Prefix(Err(e)) if e.kind() == std::io::ErrorKind::Interrupted)).count() as u64;
			let absorbed = st.borrow().eintr_fired - eintr_before > surfaced;
			let mut slice_mode = false;
			// After a transient producer error inside a borrow the read position of
			// that borrow is unspecified; the next borrow starts from offset 0 again.
			let mut tainted = false;
			for (op, res) in g.iter().zip(results) {
				if absorbed && matches!(op, RefOp::ReadExact(_) | RefOp::ReadToEnd) {
					tainted = true;
				}
				match (op, res) {
					(_, RefOpResult::Slice(b)) => {
						slice_mode = true;
						if b != d {
							viol.push(("program/slice-not-whole-input".into(), format!("borrow {gi} is in slice mode but shows {} bytes {:?}, the stream has {} bytes {:?}", b.len(), show(&b), d.len(), show(&d))));
						}
					}
					(RefOp::Read(_), RefOpResult::Read(Ok(b))) if tainted => {
						if !b.is_empty() && !d.windows(b.len()).any(|w| w == &b[..]) {
							viol.push(("program/read-fabricated-bytes".into(), format!("borrow {gi}: after a transient error a read returned {:?}, which occurs nowhere in the stream", show(&b))));
						}
					}
					(RefOp::Read(n), RefOpResult::Read(Ok(b))) => {
						if slice_mode {
							viol.push(("program/reader-after-slice".into(), format!("borrow {gi} returned a reader result after a slice result")));
						}
						reach = reach.max(pos + n);
						if b.len() > *n {
							viol.push(("program/read-overlong".into(), format!("read({n}) returned {} bytes", b.len())));
						}
						if pos + b.len() > d.len() || d[pos..pos + b.len()] != b[..] {
							viol.push(("program/read-wrong-bytes".into(), format!("borrow {gi}: read({n}) at offset {pos} returned {:?}, the stream has {:?} there", show(&b), show(&d[pos.min(d.len())..(pos + b.len()).min(d.len())]))));
						}
						if b.is_empty() && *n > 0 && pos < d.len() {
							viol.push(("program/premature-eof".into(), format!("borrow {gi}: read({n}) returned 0 at offset {pos} of {}", d.len())));
						}
						pos += b.len();
					}
					(RefOp::Prefix(n), RefOpResult::Prefix(Ok(b))) => {
						reach = reach.max(*n);
						if b.len() > d.len() || d[..b.len()] != b[..] {
							viol.push(("program/prefix-wrong-bytes".into(), format!("borrow {gi}: prefix({n}) returned {:?} which is not a prefix of the stream {:?}", show(&b), show(&d))));
						}
						if b.len() < (*n).min(d.len()) {
							viol.push(("program/prefix-too-short".into(), format!("borrow {gi}: prefix({n}) returned {} bytes of a {}-byte stream", b.len(), d.len())));
						}
					}
					(RefOp::ReadExact(_) | RefOp::ReadToEnd, RefOpResult::ReadExact(Ok(b)) | RefOpResult::ReadToEnd(Ok(b))) if tainted => {
						// (a call made of several reads may have lost replayed bytes in its middle:
						// what it returns is then a subsequence of the stream, never foreign bytes)
						let mut it = d.iter();
						if !b.iter().all(|x| it.any(|y| y == x)) {
							viol.push(("program/read-fabricated-bytes".into(), format!("borrow {gi}: after a failed read a read_exact/read_to_end returned {:?}, which is not made of bytes of the stream in their order", show(&b))));
						}
					}
					(RefOp::ReadExact(n), RefOpResult::ReadExact(Ok(b))) => {
						n_exact += 1;
						reach = reach.max(pos + n);
						if b.len() != *n || pos + n > d.len() || d[pos..pos + n] != b[..] {
							viol.push(("program/read-exact-wrong-bytes".into(), format!("borrow {gi}: read_exact({n}) at offset {pos} of {} succeeded with {:?}, the stream has {:?} there", d.len(), show(&b), show(&d[pos.min(d.len())..(pos + n).min(d.len())]))));
						}
						pos = (pos + n).min(d.len());
					}
					(RefOp::ReadExact(n), RefOpResult::ReadExact(Err(e))) if e.kind() == std::io::ErrorKind::UnexpectedEof => {
						n_exact += 1;
						short_exact = true;
						reach = reach.max(pos + n);
						if pos + n <= d.len() && !tainted {
							viol.push(("program/read-exact-premature-eof".into(), format!("borrow {gi}: read_exact({n}) at offset {pos} of {} failed with UnexpectedEof although {} bytes remain", d.len(), d.len() - pos)));
						}
						// How much of the rest the failed call consumed is unspecified for this borrow;
						// the next borrow, every prefix and the final owner still see the whole stream.
						tainted = true;
					}
					(RefOp::ReadToEnd, RefOpResult::ReadToEnd(Ok(b))) => {
						n_exact += 1;
						reach = usize::MAX;
						if d[pos.min(d.len())..] != b[..] {
							viol.push(("program/read-to-end-wrong-bytes".into(), format!("borrow {gi}: read_to_end at offset {pos} returned {} bytes {:?}, the rest of the stream is {} bytes {:?}", b.len(), show(&b), d.len() - pos.min(d.len()), show(&d[pos.min(d.len())..]))));
						}
						pos = d.len();
					}
					(_, RefOpResult::Read(Err(e)) | RefOpResult::Prefix(Err(e)) | RefOpResult::ReadExact(Err(e)) | RefOpResult::ReadToEnd(Err(e))) => {
						if e.kind() == std::io::ErrorKind::Interrupted && st.borrow().eintr_fired > 0 {
							tainted = true;
						} else {
							viol.push(("program/io-error-without-fault".into(), format!("borrow {gi}: {e}")));
						}
					}
					_ => viol.push(("program/result-kind-mismatch".into(), format!("borrow {gi}: result kind does not match the operation"))),
				}
			}
			if slice_mode {
				flipped = true;
			}
			prev_partial = (pos > 0 && pos < d.len()) || tainted;
			let delivered = st.borrow().delivered;
			// Look-ahead is driven by the consumer: never more than was asked for.
			if delivered > reach.min(d.len()) && st.borrow().eintr_fired == 0 {
				viol.push(("program/over-read".into(), format!("after borrow {gi} the producer had delivered {delivered} bytes although the program only required {reach}")));
			}
		}
		// Ownership.
		let got: Vec<u8> = if fin == "cow" {
			fin_kind = "cow";
			h.into_cow().map_err(|e| e.to_string())?
		} else {
			match h.into_input() {
				Owned::Slice(b) => {
					fin_kind = "slice";
					b
				}
				Owned::Reader(mut r) => {
					fin_kind = "reader";
					let mut out = vec![];
					// Read with a small buffer so that the prefix/source seam is crossed mid-read.
					let mut buf = [0u8; 3];
					loop {
						let n = match r.read(&mut buf) {
							Ok(n) => n,
							Err(e) if e.kind() == std::io::ErrorKind::Interrupted => continue,
							Err(e) => return Err(e.to_string()),
						};
						if n == 0 {
							break;
						}
						out.extend_from_slice(&buf[..n]);
						if out.len() > d.len() + 16 {
							break;
						}
					}
					out
				}
			}
		};
		if got != d {
			viol.push((format!("program/owner-wrong-stream/{fin_kind}"), format!("the final owner ({fin_kind}) yields {} bytes {:?}, the stream is {} bytes {:?}", got.len(), show(&got), d.len(), show(&d))));
		}
		Ok(())
	});
	match v {
		Verdict::Panic(p) => ev.violate("program/panic", format!("handle program panicked: {p}")),
		Verdict::Err(e) => ev.violate("program/io-error-without-fault", format!("ownership transfer failed: {e}")),
		Verdict::Ok => {}
	}
	if st.borrow().hang {
		ev.violate("program/hang", "step budget exceeded");
	}
	for (c, m) in viol {
		ev.violate(c, m);
	}
	ev.count("program.eintr.fired", st.borrow().eintr_fired);
	ev.count("program.flipped_to_slice", u64::from(flipped));
	ev.count("program.reborrow_after_partial_read", u64::from(reborrow_after_partial));
	ev.count("program.read_exact_or_to_end", n_exact);
	ev.count("program.read_exact_cut_short_by_eof", u64::from(short_exact));
	ev.count(
		match fin_kind {
			"cow" => "program.into_cow",
			"slice" => "program.into_input.slice",
			_ => "program.into_input.reader",
		},
		1,
	);
	ev.execs = 1;
	ev.events = st.borrow().reads;
	ev.nontrivial = flipped || reborrow_after_partial;
	ev.key = fnv(case.to_string().as_bytes());
	ev.trace = mix(u64::from(flipped) | (u64::from(reborrow_after_partial) << 1), mix(hash_str(fin_kind), ops.len() as u64));
	ev
}

fn eval(case: &J) -> Eval {
	if case["kind"].as_str() == Some("program") {
		eval_program(case)
	} else {
		eval_lib(case)
	}
}

fn shrink(case: &J) -> Vec<J> {
	if case["kind"].as_str() != Some("program") {
		return crate::shrink::lib_shrink(case)
			.into_iter()
			.map(|mut j| {
				j["kind"] = json!("lib");
				j
			})
			.collect();
	}
	let mut out = vec![];
	let ops = case["ops"].as_array().cloned().unwrap_or_default();
	for i in 0..ops.len() {
		let mut c = case.clone();
		let mut o = ops.clone();
		o.remove(i);
		c["ops"] = J::Array(o);
		out.push(c);
	}
	let data = case["hex"].as_str().and_then(unhex).unwrap_or_default();
	for b in crate::shrink::byte_removals(&data) {
		let mut c = case.clone();
		c["hex"] = json!(hex(&b));
		out.push(c);
	}
	if let Some(s) = crate::scenario::sched_from_json(&case["sched"]) {
		for s2 in crate::shrink::sched_simplifications(&s) {
			let mut c = case.clone();
			c["sched"] = crate::scenario::sched_to_json(&s2);
			out.push(c);
		}
	}
	for (i, op) in ops.iter().enumerate() {
		for key in ["read", "prefix", "exact"] {
			if let Some(n) = op.get(key).and_then(J::as_u64) {
				for m in [0, n / 2, n.saturating_sub(1)] {
					if m < n {
						let mut c = case.clone();
						c["ops"][i] = json!({key: m});
						out.push(c);
					}
				}
			}
		}
	}
	out
}
