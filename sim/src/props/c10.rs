//! C10 - xt recognises its own output without -f.
//!
//! One run = a simulated pipeline `xt -t F | xt`: stage 1 (real xt) writes
//! the translation of collection-rooted documents to a consumer that records
//! its write boundaries; the "pipe" re-chunks those writes (coalescing
//! adjacent ones, splitting at arbitrary bytes); stage 2 (real xt) reads them
//! through a producer with that schedule, with no format named.

use serde::de::IgnoredAny;
use serde_json::{json, Value as J};

use super::common::*;
use crate::exec::{self, Verdict};
use crate::gen::{self, GenCfg, V};
use crate::prop::{Eval, PropDef, Tier};
use crate::rng::{mix, Rng};
use crate::scenario::{Call, Fmt, Scenario, ALL_FMTS, STREAM_FMTS};
use crate::simio::{Ev, Sched};

pub static DEF: PropDef = PropDef {
	id: "C10",
	level: "exploration",
	runs,
	gen,
	eval,
	// The pipe contents are stage 1's output and must stay as they are: only schedules shrink.
	shrink: |case| {
		let sc = parse(case);
		crate::shrink::sched_simplifications(&sc.calls[0].sched)
			.into_iter()
			.map(|s| {
				let mut n = sc.clone();
				n.calls[0].sched = s;
				n.to_json()
			})
			.collect()
	},
	rule: "run = pipeline: 1..6 collection-rooted generated documents (incl. empty collections; first keys that are empty, numeric-looking, need quoting, non-ASCII, or start with a byte in 0x80-0xDF once encoded) rendered in JSON/MessagePack/YAML, translated by stage 1 to F in {JSON, MessagePack, YAML, TOML}; its recorded write boundaries are coalesced/split by the seeded pipe model into the read schedule of stage 2, which runs with detection as reader and as slice and is compared with the explicit -f F run; the detected format itself is read through the verif hook. Non-trivial: stage 2 received the pipe contents in >= 2 reads. Distinct = distinct (stage-1 output bytes, F, target, schedule).",
	real: LIB_REAL,
	stub: &["producer/consumer stubs as in the other library checks", "the pipe between the two stages (a schedule transformer over stage 1's recorded writes)"],
	assumptions: &["TOML carve-out judged without xt's detection code: serde_json accepts a first value from the text, or serde_yaml parses the whole text to a collection root"],
	expected_probes: &["F.json", "F.msgpack", "F.yaml", "F.toml", "toml.carved_out", "multi_doc", "first_key.special", "empty_collection", "pipe.coalesced", "pipe.split"],
	needs_bins: false,
	watchdog_s: 30,
};

fn runs(t: Tier) -> u64 {
	match t {
		Tier::Quick => 40_000,
		Tier::Thorough => 3_000_000,
	}
}

const SPECIAL_KEYS: &[&str] = &["", "1", "1.5", "true", "null", "~", "-", "a b", "a: b", "#c", "[x]", "{y}", "it's", "q\"q", "é", "日本", "\u{700}x", "\u{7ff}", "\u{80}", "\u{1F600}", "=", "a.b", "'", " lead", "---", "2001-01-01", "0x1f", ".inf", "yes", "\t", "\n"];

fn doc(r: &mut Rng, cfg: &GenCfg, table: bool) -> (V, bool, bool) {
	let mut special = false;
	let mut empty = false;
	let v = if r.chance(1, 150) {
		// Collections whose member count needs a wide MessagePack header (array/map 16 and 32),
		// with counts around every byte boundary of the length field.
		let n = *r.pick(&[255usize, 256, 4096, 32767, 32768, 33000, 40000, 49151, 49152, 65535, 65536, 66000]) + r.range(0, 2);
		if table || r.chance(1, 2) {
			V::M((0..n).map(|i| (V::S(format!("k{i}")), V::I((i % 100) as i64))).collect())
		} else {
			V::A((0..n).map(|i| V::I((i % 120) as i64 - 20)).collect())
		}
	} else if r.chance(1, 8) {
		// Collections with 16..40 members (array 16 / map 16 headers in MessagePack), mostly
		// of values that encode to a single byte.
		let n = r.range(16, 40);
		let small = |r: &mut Rng| -> V {
			match r.below(8) {
				0 => V::Bool(r.chance(1, 2)),
				1 if cfg.null => V::Null,
				2 => V::S(String::new()),
				3 => V::A(vec![]),
				4 => V::M(vec![]),
				5 => V::S(gen::gen_string(r, cfg)),
				_ => V::I(r.range(0, 159) as i64 - 32),
			}
		};
		if table || r.chance(1, 3) {
			V::M((0..n).map(|i| (V::S(format!("k{i}")), small(r))).collect())
		} else {
			V::A((0..n).map(|_| small(r)).collect())
		}
	} else if r.chance(1, 10) {
		empty = true;
		if table || r.chance(1, 2) {
			V::M(vec![])
		} else {
			V::A(vec![])
		}
	} else if table || r.chance(1, 2) {
		let mut m = match gen::gen_map(r, cfg, 0) {
			V::M(m) => m,
			_ => vec![],
		};
		if r.chance(1, 2) {
			special = true;
			let k = V::S((*r.pick(SPECIAL_KEYS)).to_owned());
			m.retain(|(k2, _)| *k2 != k);
			m.insert(0, (k, gen::gen_value(r, cfg, 2)));
		}
		V::M(m)
	} else {
		gen::gen_doc(r, cfg)
	};
	(v, special, empty)
}

fn gen(seed: u64, idx: u64, _t: Tier) -> J {
	let mut r = Rng::derive(seed, "C10", idx);
	let f = *r.pick(&ALL_FMTS);
	let a = *r.pick(&STREAM_FMTS);
	let n = if f == Fmt::Toml { 1 } else { r.log_range(1, 6) };
	let mut cfg = if f == Fmt::Toml { GenCfg::toml_safe() } else { GenCfg::common() };
	cfg.max_depth = r.range(1, 3);
	cfg.max_len = r.range(1, 4);
	let mut special = false;
	let mut empty = false;
	let mut stage1_out: Vec<u8> = vec![];
	let mut boundaries: Vec<u32> = vec![];
	let mut made = 0;
	let mut tries = 0;
	// Stage 1: one translator, one call per document (like several input files).
	let mut calls = vec![];
	// One stream in twelve starts with a document whose stage-1 output is EXACTLY 8192*k bytes
	// (the second stage reads through 8 KiB buffers, libyaml through 16 KiB ones): the
	// look-ahead that detection captured then ends exactly where a consumer's read ends.
	let mut exact = false;
	if f != Fmt::Toml && r.chance(1, 12) {
		let target = 8192 * r.range(1, 4);
		let mut pad = target.saturating_sub(24);
		for _ in 0..6 {
			let v = V::M(vec![(V::S("p".into()), V::S("x".repeat(pad)))]);
			let Some(b) = gen::render(&v, a, &mut r, false) else { break };
			let alone: Vec<u8> = if a == Fmt::Yaml { [b"---\n".as_slice(), &b, b"\n"].concat() } else { b };
			let (v1, out) = exec::t0(&alone, Some(a), f);
			if !v1.is_ok() {
				break;
			}
			if out.len() == target {
				calls.push(Call::slice(alone, Some(a)));
				made += 1;
				exact = true;
				break;
			}
			pad = (pad + target).saturating_sub(out.len());
		}
	}
	while made < n && tries < 4 * n + 4 {
		tries += 1;
		let (v, sp, em) = doc(&mut r, &cfg, f == Fmt::Toml);
		let Some(b) = gen::render(&v, a, &mut r, true) else { continue };
		let alone: Vec<u8> = if a == Fmt::Yaml { [b"---\n".as_slice(), &b, b"\n"].concat() } else { b };
		if !exec::t0(&alone, Some(a), f).0.is_ok() {
			continue;
		}
		special |= sp;
		empty |= em;
		calls.push(Call::slice(alone, Some(a)));
		made += 1;
	}
	if !calls.is_empty() {
		let s1 = Scenario::new(f, calls);
		let o = exec::run(&s1);
		for e in &o.log.ev {
			if let Ev::Write { got, .. } = e {
				if *got > 0 {
					boundaries.push(*got as u32);
				}
			}
		}
		stage1_out = o.out;
	}
	// The pipe: coalesce adjacent writes, split some.
	let mut list: Vec<u32> = vec![];
	let mode = r.below(4);
	let mut i = 0;
	while i < boundaries.len() {
		let mut sz = boundaries[i];
		i += 1;
		if mode != 0 {
			while i < boundaries.len() && r.chance(if mode == 1 { 9 } else { 1 }, if mode == 1 { 10 } else { 2 }) {
				sz += boundaries[i];
				i += 1;
			}
		}
		if mode == 3 && sz > 1 && r.chance(1, 3) {
			let cut = r.range(1, sz as usize - 1) as u32;
			list.push(cut);
			list.push(sz - cut);
		} else {
			list.push(sz);
		}
	}
	let sched = if exact && r.chance(2, 3) {
		// pipes deliver what fits: whole buffers, pages, or just under a page
		match r.below(5) {
			0 => Sched::whole(),
			1 => Sched::bytes(8192),
			2 => Sched::bytes(4096),
			3 => Sched::bytes(4094),
			_ => Sched::bytes(16384),
		}
	} else if r.chance(1, 8) {
		gen::gen_sched(&mut r, stage1_out.len())
	} else {
		Sched { list, cycle: false }
	};
	let to = *r.pick(&ALL_FMTS);
	let mut sc = Scenario::new(to, vec![Call::reader(stage1_out, None, sched)]);
	set_param(&mut sc, "F", json!(f.name()));
	set_param(&mut sc, "docs", json!(made));
	set_param(&mut sc, "special_first_key", json!(special));
	set_param(&mut sc, "empty_collection", json!(empty));
	set_param(&mut sc, "writes", json!(boundaries.len()));
	set_param(&mut sc, "exact_first", json!(exact));
	sc.to_json()
}

fn eval(case: &J) -> Eval {
	let sc = parse(case);
	let mut ev = Eval::default();
	let f = sc.param_s("F").and_then(Fmt::parse).unwrap_or(Fmt::Json);
	let o_bytes = &sc.calls[0].bytes;
	ev.count(
		match f {
			Fmt::Json => "F.json",
			Fmt::Msgpack => "F.msgpack",
			Fmt::Yaml => "F.yaml",
			Fmt::Toml => "F.toml",
		},
		1,
	);
	if sc.param_i("docs").unwrap_or(0) == 0 {
		return ev;
	}
	if f == Fmt::Toml {
		// The statement's carve-out, judged independently of xt's detection.
		let text = std::str::from_utf8(o_bytes).unwrap_or("");
		// "its first token is the start of a JSON value": one value parses from the front.
		let json_first = {
			use serde::Deserialize;
			let mut de = serde_json::Deserializer::from_str(text);
			IgnoredAny::deserialize(&mut de).is_ok()
		};
		// "at the same time a YAML collection document": the first document of the text,
		// read by serde_yaml as a YAML stream, is a mapping or a sequence.
		let yaml_collection = {
			use serde::Deserialize;
			serde_yaml::Deserializer::from_str(text).next().is_some_and(|de| matches!(serde_yaml::Value::deserialize(de), Ok(serde_yaml::Value::Mapping(_) | serde_yaml::Value::Sequence(_))))
		};
		if json_first || yaml_collection || text.is_empty() {
			ev.count("toml.carved_out", 1);
			ev.key = key_of(&sc, 0);
			return ev;
		}
	}
	ev.count("multi_doc", u64::from(sc.param_i("docs").unwrap_or(0) > 1));
	ev.count("first_doc_output_exactly_8k_multiple", u64::from(sc.params.get("exact_first").and_then(J::as_bool).unwrap_or(false)));
	ev.count("first_key.special", u64::from(sc.params.get("special_first_key").and_then(J::as_bool).unwrap_or(false)));
	ev.count("empty_collection", u64::from(sc.params.get("empty_collection").and_then(J::as_bool).unwrap_or(false)));
	let writes = sc.param_i("writes").unwrap_or(0) as usize;
	let reads_planned = sc.calls[0].sched.list.len();
	ev.count("pipe.coalesced", u64::from(reads_planned < writes));
	ev.count("pipe.split", u64::from(reads_planned > writes));
	let tag = format!("{}->{}", f.name(), sc.to.name());
	for reader in [true, false] {
		let supply = if reader { "reader" } else { "slice" };
		let mut s1 = sc.clone();
		s1.calls[0].reader = reader;
		if !reader {
			s1.calls[0].sched = Sched::whole();
		}
		// The detected format itself.
		let det = if reader {
			let log = std::rc::Rc::new(std::cell::RefCell::new(crate::simio::Log { counting_only: true, ..Default::default() }));
			let rd = crate::simio::SimReader::new(0, std::rc::Rc::new(o_bytes.clone()), s1.calls[0].sched.clone(), None, vec![], None, log);
			let mut res = None;
			let v = exec::guarded(|| {
				res = Some(xt::verif::detect_reader(rd).map(|d| d.map(Fmt::from_xt)).map_err(|e| e.to_string()));
				Ok(())
			});
			if let Verdict::Panic(p) = v {
				ev.violate(format!("detect/panic/{tag}"), p);
			}
			res
		} else {
			Some(xt::verif::detect_slice(o_bytes).map(|d| d.map(Fmt::from_xt)).map_err(|e| e.to_string()))
		};
		ev.execs += 1;
		match det {
			Some(Ok(Some(d))) if d == f => {}
			Some(other) => ev.violate(format!("not-recognised/{}/{supply}", f.name()), format!("xt's own {} output is detected as {:?} ({supply}): {:?}", f.name(), other, show(o_bytes))),
			None => {}
		}
		let o1 = exec::run(&s1);
		global_invariants(&mut ev, &s1, &o1, "stage 2 with detection");
		add_io_counters(&mut ev, &o1);
		let mut s2 = s1.clone();
		s2.calls[0].from = Some(f);
		let o2 = exec::run(&s2);
		global_invariants(&mut ev, &s2, &o2, "stage 2 with -f");
		add_io_counters(&mut ev, &o2);
		let (v1, v2) = (o1.verdict(0), o2.verdict(0));
		if v1.code() == 2 || v2.code() == 2 {
			continue;
		}
		if v1.kind() != v2.kind() {
			ev.violate(format!("pipeline/verdict/{tag}/{supply}/{}-vs-{}", v1.kind(), v2.kind()), format!("`xt -t {0} | xt` ended {1} ({2:?}) but `xt -t {0} | xt -f {0}` ended {3} ({4:?}); pipe contents {5:?}", f.name(), v1.kind(), v1.text(), v2.kind(), v2.text(), show(o_bytes)));
		} else if o1.out != o2.out {
			ev.violate(format!("pipeline/bytes/{tag}/{supply}"), format!("outputs differ at byte {}: {:?} vs {:?}", first_diff(&o1.out, &o2.out), show(&o1.out), show(&o2.out)));
		}
		if reader {
			ev.nontrivial = o1.calls[0].data_reads >= 2;
			ev.trace = o1.trace_hash();
		}
	}
	ev.key = key_of(&sc, mix(sched_hash(&sc.calls[0].sched), f as u64));
	ev
}
