//! C03 - multi-document and multi-input output is the ordered concatenation.
//!
//! One run = one caller history: 1-8 calls on ONE translator, each call a
//! stream of 0..N documents in its own format and supply mode. Oracle: the
//! consumer's bytes equal the concatenation, in call and document order, of
//! the translation of each document taken alone; and an independent framing
//! reader recovers exactly the number of documents supplied.

use serde_json::{json, Value as J};

use super::common::*;
use crate::exec::{self, Verdict};
use crate::frame;
use crate::gen::{self, GenCfg, V};
use crate::prop::{Eval, PropDef, Tier};
use crate::rng::{mix, Rng};
use crate::scenario::{from_name, Call, Fmt, Scenario, STREAM_FMTS};
use crate::simio::Sched;

pub static DEF: PropDef = PropDef {
	id: "C03",
	level: "exploration",
	runs,
	gen,
	eval,
	shrink,
	rule: "run = caller history of 1-8 translate calls on one Translator (per call: 0-40 documents, or up to hundreds in the long-stream family, in JSON/MessagePack/YAML/TOML, slice or simulated producer, explicit format or detection, all separators the format allows, read schedules incl. reads ending exactly at / one byte around document ends, short-write consumers; boundary family: a padded document ends at 8192*m+d or 16384*m+d, d in -2..=2). Non-trivial: (>=2 calls or >=3 documents) and >=1 short read. Distinct = distinct (history bytes, formats, schedules).",
	real: &["xt library under the simulator (9 of 10 runs)", "the shipped debug and release binaries given several input files / stdin (1 of 10 runs)", "serde_json, serde_yaml, unsafe-libyaml, rmp, rmp-serde, toml, toml_edit"],
	stub: &["producer/consumer/caller (library runs)", "byte transport of fds 0/1 and input files, mmap success (process runs: LD_PRELOAD interposer)"],
	assumptions: &["the per-document expectation is xt's own translation of that document alone (slice, fault-free): value correctness is deliberately not claimed here", "documents that the target refuses when translated alone are not generated"],
	expected_probes: &["family.mixed", "family.boundary", "family.long", "calls>=2", "detect_call", "r.short(reads beyond the first)", "w.short", "read_ends_at_document_end", "empty_call", "scalar_docs", "p.spawn", "bin.debug", "bin.release"],
	needs_bins: true,
	watchdog_s: 60,
};

fn runs(t: Tier) -> u64 {
	match t {
		Tier::Quick => 40_000,
		Tier::Thorough => 2_000_000,
	}
}

fn scalar_doc(r: &mut Rng, f: Fmt) -> Vec<u8> {
	let cfg = GenCfg { null: true, bytes: false, big_u64: false, ..GenCfg::common() };
	let v = match gen::gen_scalar(r, &cfg) {
		// Keep YAML scalars unambiguous for block rendering.
		V::S(s) if f == Fmt::Yaml => V::S(s.replace(['\n', '\t'], " ")),
		v => v,
	};
	match f {
		Fmt::Json => gen::to_json(&v, r, false).into_bytes(),
		Fmt::Msgpack => gen::to_msgpack(&v, r, true),
		_ => gen::to_yaml_flow(&v).into_bytes(),
	}
}

/// Documents that translate alone to `to`.
fn make_docs(r: &mut Rng, f: Fmt, to: Fmt, n: usize, allow_scalars: bool, cfg: &GenCfg) -> (Vec<Vec<u8>>, bool) {
	let mut docs = vec![];
	let mut scalars = false;
	let mut tries = 0;
	while docs.len() < n && tries < 4 * n + 8 {
		tries += 1;
		let d = if allow_scalars && r.chance(1, 5) {
			scalars = true;
			scalar_doc(r, f)
		} else {
			let v = if f == Fmt::Toml { gen::gen_map(r, cfg, 0) } else { gen::gen_doc(r, cfg) };
			match gen::render(&v, f, r, true) {
				Some(b) => b,
				None => continue,
			}
		};
		let alone: Vec<u8> = if f == Fmt::Yaml { [b"---\n".as_slice(), &d, b"\n"].concat() } else { d.clone() };
		if exec::t0(&alone, Some(f), to).0.is_ok() {
			docs.push(d);
		}
	}
	(docs, scalars)
}

fn join_json(docs: &[Vec<u8>], r: &mut Rng) -> gen::Stream {
	// JSON: none (between self-delimiting values) / blank / newlines.
	let mut s = gen::Stream::default();
	for (i, d) in docs.iter().enumerate() {
		if i > 0 {
			let prev = docs[i - 1].last().copied().unwrap_or(b' ');
			let self_delim = matches!(prev, b'}' | b']' | b'"') || matches!(d.first(), Some(b'{' | b'[' | b'"'));
			let sep: &str = if self_delim && r.chance(1, 3) { "" } else { *r.pick(&["\n", " ", "\n\n", "\t", "\r\n", " \n "]) };
			s.bytes.extend_from_slice(sep.as_bytes());
		} else if r.chance(1, 8) {
			s.bytes.extend_from_slice(b" \n");
		}
		let st = s.bytes.len();
		s.bytes.extend_from_slice(d);
		s.docs.push((st, s.bytes.len()));
	}
	if !docs.is_empty() && r.chance(3, 4) {
		s.bytes.push(b'\n');
	}
	s
}

fn build_call(r: &mut Rng, to: Fmt, max_docs: usize, long: bool) -> (Call, Vec<(usize, usize)>, bool, Fmt) {
	let f = if r.chance(1, 12) { Fmt::Toml } else { *r.pick(&STREAM_FMTS) };
	let n = if f == Fmt::Toml {
		1
	} else if long {
		r.range(100, max_docs)
	} else if r.chance(1, 10) {
		0
	} else {
		r.log_range(1, max_docs)
	};
	let mut cfg = if f == Fmt::Toml { GenCfg::toml_safe() } else { GenCfg::common() };
	if long {
		cfg.max_depth = 2;
		cfg.max_len = 3;
	} else {
		cfg.max_depth = r.range(1, 4);
		cfg.max_len = r.range(0, 6);
	}
	cfg.bytes = f == Fmt::Msgpack && to != Fmt::Json && r.chance(1, 6);
	let explicit = r.chance(3, 5);
	let (docs, scalars) = make_docs(r, f, to, n, explicit && f != Fmt::Toml, &cfg);
	let stream = match f {
		Fmt::Json => join_json(&docs, r),
		_ => {
			let s = gen::build_stream(&docs, f, r, true);
			gen::Stream { alone: vec![], ..s }
		}
	};
	let mut from = if explicit { Some(f) } else { None };
	if from.is_none() {
		// Detection must select this format for the history to be meaningful.
		let det = xt::verif::detect_slice(&stream.bytes).ok().flatten().map(Fmt::from_xt);
		if det != Some(f) {
			from = Some(f);
		}
	}
	let reader = r.chance(2, 3);
	let sched = if !reader {
		Sched::whole()
	} else if r.chance(1, 4) && !stream.docs.is_empty() {
		let ends: Vec<usize> = stream.docs.iter().map(|d| d.1).collect();
		gen::sched_at_offsets(&ends, *r.pick(&[0i64, 0, -1, 1]))
	} else {
		gen::gen_sched(r, stream.bytes.len())
	};
	let mut c = Call::reader(stream.bytes, from, sched);
	c.reader = reader;
	(c, stream.docs, scalars, f)
}

/// A JSON/MessagePack/YAML document of exactly `size` bytes (padding string).
fn padded_doc(f: Fmt, size: usize) -> Option<Vec<u8>> {
	for guess in size.saturating_sub(40)..=size {
		let v = V::M(vec![(V::S("pad".into()), V::S("x".repeat(guess)))]);
		let mut r = Rng::new(1);
		let b = match f {
			Fmt::Json => gen::to_json(&v, &mut r, false).into_bytes(),
			Fmt::Msgpack => gen::to_msgpack(&v, &mut r, false),
			_ => gen::to_yaml_flow(&v).into_bytes(),
		};
		if b.len() == size {
			return Some(b);
		}
	}
	None
}

/// Process slice: one command-line invocation with several input files in mixed formats
/// (format taken from the extension, detection for extension-less names, '-' for stdin).
fn gen_proc(seed: u64, idx: u64) -> J {
	use crate::procsim::{FileSpec, ProcCase, ReadPlan};
	let mut r = Rng::derive(seed, "C03p", idx);
	let to = *r.pick(&STREAM_FMTS);
	let mut c = ProcCase { bin: if r.chance(1, 2) { "debug" } else { "release" }.to_owned(), ..Default::default() };
	if to != Fmt::Json || r.chance(1, 3) {
		c.args.push(format!("-t{}", to.letter()));
	}
	let n = r.range(2, 5);
	let mut meta = vec![];
	for i in 0..n {
		let (call, ranges, _, f) = build_call(&mut r, to, 6, false);
		let use_stdin = c.stdin.is_none() && r.chance(1, 6);
		let with_ext = call.from.is_some();
		if use_stdin && !with_ext {
			c.stdin = Some(call.bytes.clone());
			c.stdin_plan = Some(ReadPlan { sched: call.sched.clone(), ..Default::default() });
			c.args.push("-".into());
			meta.push(json!({"name": "-", "fmt": f.name(), "docs": ranges.iter().map(|(a, b)| json!([a, b])).collect::<Vec<_>>()}));
			continue;
		}
		let name = if with_ext { format!("in{i}.{}", f.name()) } else { format!("in{i}") };
		c.files.push(FileSpec { name: name.clone(), kind: "file".into(), bytes: call.bytes.clone(), plan: Some(ReadPlan { sched: call.sched.clone(), ..Default::default() }) });
		c.args.push(name.clone());
		meta.push(json!({"name": name, "fmt": f.name(), "docs": ranges.iter().map(|(a, b)| json!([a, b])).collect::<Vec<_>>()}));
	}
	c.nommap = r.chance(1, 3);
	if r.chance(1, 3) {
		c.wsched = gen::gen_sched(&mut r, 512);
	}
	c.params.insert("to".into(), json!(to.name()));
	c.params.insert("inputs".into(), J::Array(meta));
	c.to_json()
}

fn eval_proc(case: &J) -> Eval {
	use crate::procsim;
	let mut ev = Eval::default();
	let Some(c) = procsim::ProcCase::from_json(case) else { return ev };
	let to = c.params.get("to").and_then(J::as_str).and_then(Fmt::parse).unwrap_or(Fmt::Json);
	ev.count("p.spawn", 1);
	// Expected: concatenation of every document of every input translated alone.
	let mut expected: Vec<u8> = vec![];
	let mut ndocs = 0;
	for m in c.params.get("inputs").and_then(J::as_array).cloned().unwrap_or_default() {
		let name = m["name"].as_str().unwrap_or("");
		let f = m["fmt"].as_str().and_then(Fmt::parse).unwrap_or(Fmt::Json);
		let bytes: Vec<u8> = if name == "-" { c.stdin.clone().unwrap_or_default() } else { c.files.iter().find(|x| x.name == name).map(|x| x.bytes.clone()).unwrap_or_default() };
		for d in m["docs"].as_array().cloned().unwrap_or_default() {
			let (s, e) = (d[0].as_u64().unwrap_or(0) as usize, d[1].as_u64().unwrap_or(0) as usize);
			if e > bytes.len() || s > e {
				return ev;
			}
			let (v, out) = exec::t0(&bytes[s..e], Some(f), to);
			ev.execs += 1;
			if !v.is_ok() {
				return ev;
			}
			expected.extend_from_slice(&out);
			ndocs += 1;
		}
	}
	let o = procsim::run(&c);
	procsim::write_plan_note(&mut ev, &c, &o);
	ev.key = crate::rng::fnv(case.to_string().as_bytes());
	ev.trace = crate::rng::hash_str(&o.status());
	if !procsim::proc_invariants(&mut ev, &c, &o) {
		return ev;
	}
	let args = format!("{:?}", c.args);
	if o.code != Some(0) {
		ev.violate(format!("cli/call-failed/{}", to.name()), format!("xt {args}: every document of every input translates alone, but xt ended with {}: {:?}", o.status(), show(&o.stderr)));
	} else {
		if o.stdout != expected {
			let d = first_diff(&o.stdout, &expected);
			ev.violate(format!("cli/concat/{}", to.name()), format!("xt {args}: stdout ({} bytes) is not the concatenation of the {ndocs} per-document translations ({} bytes); first difference at byte {d}: {:?} vs {:?}", o.stdout.len(), expected.len(), show(&o.stdout[d.min(o.stdout.len())..]), show(&expected[d.min(expected.len())..])));
		}
		let fr = frame::frame(to, &o.stdout, true);
		if fr.docs.len() != ndocs || !fr.tail.is_empty() || fr.malformed.is_some() {
			ev.violate(format!("cli/framing/{}", to.name()), format!("xt {args}: an independent {} framing reader recovers {} documents (+{} trailing bytes), {ndocs} were supplied", to.name(), fr.docs.len(), fr.tail.len()));
		}
	}
	ev.nontrivial = true;
	ev
}

fn gen(seed: u64, idx: u64, t: Tier) -> J {
	if idx % 10 == 9 {
		return gen_proc(seed, idx);
	}
	let mut r = Rng::derive(seed, "C03", idx);
	let to = *r.pick(&STREAM_FMTS);
	let fam = r.below(100);
	let mut calls = vec![];
	let mut ranges: Vec<Vec<(usize, usize)>> = vec![];
	let mut fmts: Vec<Fmt> = vec![];
	let family;
	let mut scalars_any = false;
	if fam < 80 {
		family = "mixed";
		let ncalls = r.log_range(1, 8);
		for _ in 0..ncalls {
			let (c, d, sc, f) = build_call(&mut r, to, 40, false);
			scalars_any |= sc;
			calls.push(c);
			ranges.push(d);
			fmts.push(f);
		}
	} else if fam < 93 {
		family = "boundary";
		// doc0 small, doc1 padded so that it ends at B*m + d, doc2.. small.
		let f = *r.pick(&STREAM_FMTS);
		let b = *r.pick(&[8192usize, 16384]);
		let m = r.range(1, 3);
		let d = r.range(0, 4) as i64 - 2;
		let npre = r.range(0, 2);
		let (pre, _) = make_docs(&mut r, f, to, npre, false, &GenCfg::common());
		let npost = r.range(1, 3);
		let (post, _) = make_docs(&mut r, f, to, npost, false, &GenCfg::common());
		// Measure the prefix length by building the stream without the padded document.
		let probe = gen::build_stream(&pre, f, &mut Rng::new(7), false);
		let sep = match f {
			Fmt::Json => usize::from(!pre.is_empty()),
			Fmt::Yaml => 4,
			_ => 0,
		};
		let target_end = (b * m) as i64 + d;
		let yaml_nl = usize::from(f == Fmt::Yaml);
		let size = target_end - probe.bytes.len() as i64 - sep as i64 - yaml_nl as i64;
		let mut docs = pre.clone();
		if size > 16 {
			if let Some(p) = padded_doc(f, size as usize) {
				docs.push(p);
			}
		}
		docs.extend(post);
		let stream = gen::build_stream(&docs, f, &mut Rng::new(7), false);
		let reader = r.chance(4, 5);
		let sched = if r.chance(1, 2) { gen::gen_sched(&mut r, stream.bytes.len()) } else { Sched::bytes(*r.pick(&[8192u32, 4096, 16384, 8191, 1000])) };
		let mut c = Call::reader(stream.bytes, Some(f), sched);
		c.reader = reader;
		if r.chance(1, 3) {
			let det = xt::verif::detect_slice(&c.bytes).ok().flatten().map(Fmt::from_xt);
			if det == Some(f) {
				c.from = None;
			}
		}
		calls.push(c);
		ranges.push(stream.docs);
		fmts.push(f);
	} else {
		family = "long";
		let max = if t == Tier::Quick { 300 } else { 3000 };
		let (c, d, sc, f) = build_call(&mut r, to, max, true);
		scalars_any |= sc;
		calls.push(c);
		ranges.push(d);
		fmts.push(f);
	}
	let mut sc = Scenario::new(to, calls);
	if r.chance(1, 3) {
		sc.writer.sched = gen::gen_sched(&mut r, 512);
	}
	set_param(&mut sc, "family", json!(family));
	set_param(&mut sc, "scalars", json!(scalars_any));
	set_param(&mut sc, "docs", json!(ranges.iter().map(|v| v.iter().map(|(a, b)| json!([a, b])).collect::<Vec<_>>()).collect::<Vec<_>>()));
	set_param(&mut sc, "fmts", json!(fmts.iter().map(|f| f.name()).collect::<Vec<_>>()));
	sc.to_json()
}

fn doc_ranges(sc: &Scenario) -> Vec<Vec<(usize, usize)>> {
	let mut out = vec![];
	if let Some(calls) = sc.params.get("docs").and_then(J::as_array) {
		for c in calls {
			let mut v = vec![];
			for d in c.as_array().cloned().unwrap_or_default() {
				v.push((d[0].as_u64().unwrap_or(0) as usize, d[1].as_u64().unwrap_or(0) as usize));
			}
			out.push(v);
		}
	}
	out
}

fn call_fmts(sc: &Scenario) -> Vec<Fmt> {
	sc.params.get("fmts").and_then(J::as_array).map(|a| a.iter().filter_map(|x| x.as_str().and_then(Fmt::parse)).collect()).unwrap_or_default()
}

fn eval(case: &J) -> Eval {
	if case["kind"].as_str() == Some("proc") {
		return eval_proc(case);
	}
	let sc = parse(case);
	let mut ev = Eval::default();
	let ranges = doc_ranges(&sc);
	let fmts = call_fmts(&sc);
	let family = sc.param_s("family").unwrap_or("mixed");
	ev.count(
		match family {
			"boundary" => "family.boundary",
			"long" => "family.long",
			_ => "family.mixed",
		},
		1,
	);
	// Expected: concatenation of each document translated alone.
	let mut expected: Vec<u8> = vec![];
	let mut ndocs = 0usize;
	let mut unusable = false;
	for (i, c) in sc.calls.iter().enumerate() {
		let f = fmts.get(i).copied().or(c.from).unwrap_or(Fmt::Json);
		for &(s, e) in ranges.get(i).map(Vec::as_slice).unwrap_or(&[]) {
			if e > c.bytes.len() || s > e {
				unusable = true;
				continue;
			}
			let (v, out) = exec::t0(&c.bytes[s..e], Some(f), sc.to);
			ev.execs += 1;
			if !v.is_ok() {
				unusable = true; // (only after shrinking) the document no longer translates alone
			}
			expected.extend_from_slice(&out);
			ndocs += 1;
		}
	}
	if unusable {
		return ev;
	}
	let o = exec::run(&sc);
	global_invariants(&mut ev, &sc, &o, "history");
	add_io_counters(&mut ev, &o);
	let tag = format!("{}/{}", sc.calls.iter().map(|c| from_name(c.from).chars().next().unwrap_or('?')).collect::<String>().chars().take(1).collect::<String>(), sc.to.name());
	let ftag = format!("{}->{}", fmts.first().map_or("?", |f| f.name()), sc.to.name());
	for (i, c) in o.calls.iter().enumerate() {
		if let Some(Verdict::Err(e)) = &c.verdict {
			ev.violate(format!("call-failed/{ftag}/{}", if sc.calls[i].reader { "reader" } else { "slice" }), format!("call {i} ({} documents, each translatable alone) failed: {e}", ranges.get(i).map_or(0, Vec::len)));
		}
	}
	let _ = tag;
	if o.calls.iter().all(|c| matches!(c.verdict, Some(Verdict::Ok))) {
		if o.out != expected {
			let d = first_diff(&o.out, &expected);
			ev.violate(
				format!("concat/{ftag}/{}", if o.out.len() < expected.len() { "short" } else if o.out.len() > expected.len() { "long" } else { "differs" }),
				format!("output ({} bytes) is not the concatenation of the {} per-document translations ({} bytes); first difference at byte {d}: got {:?}, expected {:?}", o.out.len(), ndocs, expected.len(), show(&o.out[d.saturating_sub(10).min(o.out.len())..]), show(&expected[d.saturating_sub(10).min(expected.len())..])),
			);
		}
		let fr = frame::frame(sc.to, &o.out, true);
		if let Some(m) = &fr.malformed {
			ev.violate(format!("framing/malformed/{}", sc.to.name()), m.clone());
		}
		if fr.docs.len() != ndocs || !fr.tail.is_empty() {
			ev.violate(format!("framing/count/{}", sc.to.name()), format!("an independent {} framing reader recovers {} documents (+{} trailing bytes) but {} documents were supplied", sc.to.name(), fr.docs.len(), fr.tail.len(), ndocs));
		}
	}
	let short_reads: u64 = o.calls.iter().map(|c| c.data_reads.saturating_sub(1)).sum();
	ev.nontrivial = (sc.calls.len() >= 2 || ndocs >= 3) && short_reads >= 1;
	ev.count("calls>=2", u64::from(sc.calls.len() >= 2));
	ev.count("detect_call", sc.calls.iter().filter(|c| c.from.is_none()).count() as u64);
	ev.count("empty_call", ranges.iter().filter(|r| r.is_empty()).count() as u64);
	ev.count("scalar_docs", u64::from(sc.params.get("scalars").and_then(J::as_bool).unwrap_or(false)));
	// Probe: some read ended exactly at a document end.
	let mut at_end = 0u64;
	for e in &o.log.ev {
		if let crate::simio::Ev::Read { call, got, off_after, .. } = e {
			if *got > 0 && ranges.get(*call as usize).is_some_and(|r| r.iter().any(|d| d.1 as u64 == *off_after)) {
				at_end += 1;
			}
		}
	}
	ev.count("read_ends_at_document_end", at_end);
	let mut sh = sched_hash(&sc.writer.sched);
	for c in &sc.calls {
		sh = mix(sh, sched_hash(&c.sched));
	}
	ev.key = key_of(&sc, sh);
	ev.trace = o.trace_hash();
	ev
}

fn shrink(case: &J) -> Vec<J> {
	if case["kind"].as_str() == Some("proc") {
		return vec![];
	}
	let sc = parse(case);
	let ranges = doc_ranges(&sc);
	let fmts = call_fmts(&sc);
	let mut out = vec![];
	let put = |s: &mut Scenario, ranges: &Vec<Vec<(usize, usize)>>, fmts: &Vec<Fmt>| {
		set_param(s, "docs", json!(ranges.iter().map(|v| v.iter().map(|(a, b)| json!([a, b])).collect::<Vec<_>>()).collect::<Vec<_>>()));
		set_param(s, "fmts", json!(fmts.iter().map(|f| f.name()).collect::<Vec<_>>()));
	};
	// Drop a call.
	if sc.calls.len() > 1 {
		for i in 0..sc.calls.len() {
			let mut s = sc.clone();
			let mut rg = ranges.clone();
			let mut fm = fmts.clone();
			s.calls.remove(i);
			if i < rg.len() {
				rg.remove(i);
			}
			if i < fm.len() {
				fm.remove(i);
			}
			put(&mut s, &rg, &fm);
			out.push(s.to_json());
		}
	}
	// Drop documents (halves first, then single ones).
	for (ci, rg) in ranges.iter().enumerate() {
		let n = rg.len();
		let mut spans: Vec<(usize, usize)> = vec![];
		if n >= 4 {
			spans.push((0, n / 2));
			spans.push((n / 2, n));
		}
		for d in 0..n.min(12) {
			spans.push((d, d + 1));
		}
		for (a, b) in spans {
			if a >= b || b > n || rg[b - 1].1 > sc.calls[ci].bytes.len() {
				continue;
			}
			// Remove bytes from the start of document a to the start of document b (or the end of b-1).
			let cut_s = rg[a].0;
			let cut_e = if b < n { rg[b].0 } else { rg[b - 1].1 };
			if cut_e <= cut_s {
				continue;
			}
			let mut s = sc.clone();
			s.calls[ci].bytes.drain(cut_s..cut_e);
			let removed = cut_e - cut_s;
			let mut nr = ranges.clone();
			let mut v: Vec<(usize, usize)> = vec![];
			for (k, &(x, y)) in rg.iter().enumerate() {
				if k < a {
					v.push((x, y));
				} else if k >= b {
					v.push((x - removed, y - removed));
				}
			}
			nr[ci] = v;
			put(&mut s, &nr, &fmts);
			out.push(s.to_json());
		}
	}
	// Simplify schedules / supply.
	for s in crate::shrink::scenario_shrinks(&sc) {
		// keep only candidates that leave the bytes and the call list alone
		if s.calls.len() == sc.calls.len() && s.calls.iter().zip(&sc.calls).all(|(a, b)| a.bytes == b.bytes) {
			out.push(s.to_json());
		}
	}
	for i in 0..sc.calls.len() {
		if sc.calls[i].reader {
			let mut s = sc.clone();
			s.calls[i].reader = false;
			s.calls[i].sched = Sched::whole();
			out.push(s.to_json());
		}
		if sc.calls[i].from.is_none() {
			if let Some(f) = fmts.get(i) {
				let mut s = sc.clone();
				s.calls[i].from = Some(*f);
				out.push(s.to_json());
			}
		}
	}
	out
}
