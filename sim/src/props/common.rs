//! Helpers shared by the library-level property checks.

use serde_json::{json, Value as J};

use crate::exec::{Outcome, Verdict};
use crate::gen::{self, GenCfg, Stream};
use crate::prop::Eval;
use crate::rng::{fnv, mix, Rng};
use crate::scenario::{Fmt, Scenario, ALL_FMTS, STREAM_FMTS};

pub const LIB_REAL: &[&str] = &[
	"xt library (all of src/ except main.rs, bail.rs, pipecheck.rs)",
	"serde_json, serde_yaml, unsafe-libyaml, rmp, rmp-serde, toml, toml_edit",
	"std::io adaptors (BufReader, Chain, Take, read_exact, read_to_end, write_all)",
];
pub const LIB_STUB: &[&str] = &["producer (SimReader: impl Read)", "consumer (SimWriter: impl Write)", "caller (scenario driver)"];

pub fn parse(case: &J) -> Scenario {
	Scenario::from_json(case).expect("malformed scenario case")
}

pub fn set_param(sc: &mut Scenario, k: &str, v: J) {
	sc.params.insert(k.to_owned(), v);
}

/// Global invariants every run of every library-level check enforces (C04):
/// no panic, bounded steps.
pub fn global_invariants(ev: &mut Eval, sc: &Scenario, o: &Outcome, what: &str) {
	for (i, c) in o.calls.iter().enumerate() {
		if let Some(Verdict::Panic(p)) = &c.verdict {
			// A contract-violating (over-reporting) producer may cause a clean panic.
			if sc.calls[i].over.is_some() {
				ev.count("clean_panic_on_overreport", 1);
				continue;
			}
			ev.violate(format!("global/panic/{}->{}", crate::scenario::from_name(sc.calls[i].from), sc.to.name()), format!("{what}: call {i} panicked: {p}"));
		}
		if c.hang {
			ev.violate(format!("global/hang/{}->{}", crate::scenario::from_name(sc.calls[i].from), sc.to.name()), format!("{what}: call {i} exceeded the read-step budget (reads={}, input={} bytes)", c.reads, sc.calls[i].bytes.len()));
		}
	}
	if o.whang {
		ev.violate(format!("global/hang-writer/{}", sc.to.name()), format!("{what}: kept writing into a failed consumer more than 100000 times"));
	}
}

pub fn add_io_counters(ev: &mut Eval, o: &Outcome) {
	let short_reads: u64 = o.calls.iter().map(|c| c.data_reads.saturating_sub(1)).sum();
	ev.count("r.short(reads beyond the first)", short_reads);
	ev.count("w.short", o.short_writes);
	ev.count("r.fail.fired", o.calls.iter().map(|c| c.rfault_fired.min(1)).sum());
	ev.count("r.eintr.fired", o.calls.iter().map(|c| c.reintr_fired).sum());
	ev.count("r.overreport.fired", o.calls.iter().map(|c| c.over_fired).sum());
	ev.count("w.fail.fired", o.wfault_fired.min(1));
	ev.count("w.eintr.fired", o.weintr_fired);
	ev.events += o.log.count;
	ev.execs += 1;
}

/// Picks the source selection for bytes of format `f`: explicit or detection.
pub fn pick_from(r: &mut Rng, f: Fmt) -> Option<Fmt> {
	if r.chance(2, 5) {
		None
	} else {
		Some(f)
	}
}

pub fn pick_target(r: &mut Rng) -> Fmt {
	// TOML only rarely: most streams are refused by it at once.
	if r.chance(1, 8) {
		Fmt::Toml
	} else {
		*r.pick(&STREAM_FMTS)
	}
}

/// A small valid corpus input: 1..=max_docs documents in a random format.
pub fn corpus_stream(r: &mut Rng, max_docs: usize) -> (Fmt, Stream) {
	let f = *r.pick(&ALL_FMTS);
	let n = if f == Fmt::Toml { 1 } else { r.range(1, max_docs) };
	let mut cfg = GenCfg::common();
	cfg.max_depth = r.range(1, 4);
	cfg.max_len = r.range(1, 5);
	cfg.bytes = f == Fmt::Msgpack && r.chance(1, 4);
	cfg.nonstring_keys = (f == Fmt::Msgpack || f == Fmt::Yaml) && r.chance(1, 5);
	let (s, _) = gen::gen_stream(r, f, n, &cfg, true);
	(f, s)
}

pub fn key_of(sc: &Scenario, extra: u64) -> u64 {
	mix(crate::exec::input_hash(sc), extra)
}

pub fn sched_hash(s: &crate::simio::Sched) -> u64 {
	let mut h = u64::from(s.cycle);
	for x in &s.list {
		h = mix(h, u64::from(*x));
	}
	h
}

pub fn is_prefix(a: &[u8], b: &[u8]) -> bool {
	a.len() <= b.len() && b[..a.len()] == *a
}

pub fn prefix_comparable(a: &[u8], b: &[u8]) -> bool {
	is_prefix(a, b) || is_prefix(b, a)
}

pub fn first_diff(a: &[u8], b: &[u8]) -> usize {
	a.iter().zip(b.iter()).position(|(x, y)| x != y).unwrap_or(a.len().min(b.len()))
}

pub fn show(b: &[u8]) -> String {
	crate::scenario::preview(b, 60)
}

pub fn describe(sc: &Scenario) -> J {
	json!({"to": sc.to.name(), "calls": sc.calls.len(), "bytes": sc.calls.iter().map(|c| c.bytes.len()).collect::<Vec<_>>()})
}

pub fn hash_bytes(b: &[u8]) -> u64 {
	fnv(b)
}
