//! C04 - totality: no panic, abort, stack overflow or hang on any input.
//!
//! Library part: a swarm with the adversarial workload mix at high weight, all
//! source selections x targets x supply modes, every legal producer/consumer
//! fault enabled (a panic on an error path is still a panic), second calls on
//! a translator whose first call failed. The only oracle is the set of global
//! invariants every check enforces: each call ends in Ok or Err, the
//! crash-isolated worker survives, steps stay within budget, no watchdog.
//! Process part ("p" runs, see procsim): the same inputs through the debug and
//! release binaries; acceptable terminations are exit 0/1 and SIGPIPE.

use serde_json::{json, Value as J};

use super::common::*;
use crate::exec;
use crate::gen::{self, GenCfg};
use crate::prop::{Eval, PropDef, Tier};
use crate::rng::{hash_str, mix, Rng};
use crate::scenario::{Call, Fmt, Scenario, ALL_FMTS};
use crate::simio::{RFault, Sched, WFault, RKINDS};

pub static DEF: PropDef = PropDef {
	id: "C04",
	level: "exploration",
	runs,
	gen,
	eval,
	shrink: |case| if case["kind"].as_str() == Some("proc") { vec![] } else { crate::shrink::lib_shrink(case) },
	rule: "library part: run = 1-3 translate calls on one Translator; inputs drawn from: random bytes, structure-aware mutants of valid documents of every format, token sequences (exhaustive up to length 3 in C02, sampled up to 14 here), adversarial shapes (nesting at and far beyond every limit, MessagePack length prefixes up to 2^32-1 on str/bin/ext/array/map, YAML alias bombs, lone anchors/aliases, empty input, BOMs, UTF-16/32 with ill-formed units), valid documents paired with targets that must refuse them at random positions; 5 source selections x 4 targets x slice/reader with drawn read sizes; producer faults (6 kinds), consumer faults (3 kinds), EINTR, failing flush. Process part: see C13-C16/C18 process checks, which enforce 'exit 0/1 or SIGPIPE only' on every spawn. Non-trivial: at least one call returned Err (an error path ran). Distinct = distinct (bytes, formats, supply, schedule, faults).",
	real: &["xt library under the simulator (7 of 8 runs)", "the shipped debug and release binaries on an 8 MiB main-thread stack (1 of 8 runs)", "serde_json, serde_yaml, unsafe-libyaml, rmp, rmp-serde, toml, toml_edit"],
	stub: &["producer/consumer/caller (library runs)", "byte transport of fds 0/1 and input files, mmap success (process runs: LD_PRELOAD interposer)"],
	assumptions: &[
		"which bytes make a parser panic is an input question that coverage-guided fuzzing answers better (the repository ships cargo-fuzz targets); what the simulation adds is the I/O dimension: read cuts, error returns mid-token, failing writers inside the transcoder, repeated calls",
		"libyaml's scanner is quadratic in the nesting depth of flow mappings; such inputs are kept to depths that finish within the watchdog (slow-but-terminating is not counted as a hang)",
		"workers run under RLIMIT_AS = 8 GiB so that an allocation bomb aborts the worker (reported as a crash) instead of exhausting the machine",
	],
	expected_probes: &["family.random", "family.mutant", "family.tokens", "family.deep", "family.lengths", "family.yaml_aliases", "family.refused_by_target", "family.utf16_32", "family.wide", "family.empty_or_bom", "r.fail.fired", "w.fail.fired", "r.eintr.fired", "second_call_after_error", "verdict.err", "verdict.ok", "p.spawn", "p.exit0", "p.exit1", "p.sigpipe", "bin.debug", "bin.release"],
	needs_bins: true,
	watchdog_s: 60,
};

fn runs(t: Tier) -> u64 {
	match t {
		Tier::Quick => 60_000,
		Tier::Thorough => 2_000_000,
	}
}

fn lengths_doc(r: &mut Rng) -> Vec<u8> {
	// MessagePack headers that declare huge lengths.
	let marker = *r.pick(&[0xdbu8, 0xc6, 0xc9, 0xdd, 0xdf, 0xda, 0xc5, 0xc8, 0xdc, 0xde, 0xd9, 0xc4, 0xc7]);
	let len: u32 = *r.pick(&[0xffff_ffffu32, 0x7fff_ffff, 0x8000_0000, 0x0100_0000, 0xffff, 0x10000, 65, 1 << 20]);
	let mut b = vec![];
	if r.chance(1, 2) {
		b.push(0x91); // inside an array so that detection tries MessagePack
	}
	b.push(marker);
	match marker {
		0xdb | 0xc6 | 0xc9 | 0xdd | 0xdf => b.extend_from_slice(&len.to_be_bytes()),
		0xda | 0xc5 | 0xc8 | 0xdc | 0xde => b.extend_from_slice(&(len as u16).to_be_bytes()),
		_ => b.push(len as u8),
	}
	if matches!(marker, 0xc7 | 0xc8 | 0xc9) {
		b.push(r.next() as u8);
	}
	let n = r.range(0, 40);
	b.extend((0..n).map(|_| if r.chance(1, 2) { 0x01 } else { r.next() as u8 }));
	b
}

fn alias_doc(r: &mut Rng) -> Vec<u8> {
	match r.below(6) {
		0 => {
			// billion laughs
			let levels = r.range(2, 12);
			let mut s = String::from("a0: &a0 [x, x, x, x, x, x, x, x, x]\n");
			for i in 1..=levels {
				s.push_str(&format!("a{i}: &a{i} [{}]\n", vec![format!("*a{}", i - 1); 9].join(", ")));
			}
			s.into_bytes()
		}
		1 => b"*y".to_vec(),
		2 => b"&a".to_vec(),
		3 => b"&a [*a]\n".to_vec(),
		4 => b"? *x\n: &x y\n".to_vec(),
		_ => format!("- &a {}\n- *a\n- *b\n", "z".repeat(r.range(0, 5))).into_bytes(),
	}
}

fn gen(seed: u64, idx: u64, t: Tier) -> J {
	if idx % 8 == 7 {
		// Process slice: the same kind of input through the real binaries.
		use crate::procsim::{FileSpec, ProcCase, ReadPlan};
		let lib = gen(seed, idx - 1, t);
		let sc = parse(&lib);
		let mut r = Rng::derive(seed, "C04p", idx);
		let mut c = ProcCase { bin: if r.chance(1, 2) { "debug" } else { "release" }.to_owned(), ..Default::default() };
		if sc.to != Fmt::Json {
			c.args.push(format!("-t{}", sc.to.letter()));
		}
		if let Some(f) = sc.calls[0].from {
			c.args.push(format!("-f{}", f.letter()));
		}
		for (i, call) in sc.calls.iter().enumerate() {
			if i == 0 && call.reader {
				c.stdin = Some(call.bytes.clone());
				c.stdin_plan = Some(ReadPlan { sched: call.sched.clone(), ..Default::default() });
				c.args.push("-".into());
			} else {
				let name = format!("in{i}");
				c.files.push(FileSpec { name: name.clone(), kind: "file".into(), bytes: call.bytes.clone(), plan: Some(ReadPlan { sched: call.sched.clone(), ..Default::default() }) });
				c.args.push(name);
			}
		}
		c.nommap = r.chance(1, 3);
		// The unoptimised binary needs half a minute for a megabyte of deep YAML: big inputs go to the release binary.
		if sc.calls.iter().any(|call| call.bytes.len() > 150_000) {
			c.bin = "release".to_owned();
		}
		c.wsched = sc.writer.sched.clone();
		if let Some(f) = &sc.writer.fault {
			c.wfail = Some((f.at, *r.pick(&[crate::procsim::EPIPE, crate::procsim::ENOSPC, crate::procsim::EIO])));
		}
		c.params.insert("families".into(), sc.params.get("families").cloned().unwrap_or(J::Null));
		return c.to_json();
	}
	let mut r = Rng::derive(seed, "C04", idx);
	let ncalls = *r.pick(&[1usize, 1, 1, 2, 2, 3]);
	let to = *r.pick(&ALL_FMTS);
	let mut calls = vec![];
	let mut families = vec![];
	for _ in 0..ncalls {
		let fam = r.below(100);
		let (bytes, f, family): (Vec<u8>, Fmt, &str) = if fam < 3 {
			// Breadth instead of depth: one shallow document made of very many small nodes.
			let n = r.log_range(2_000, 300_000);
			let fm = *r.pick(&[Fmt::Yaml, Fmt::Yaml, Fmt::Json, Fmt::Msgpack]);
			let kind = r.below(3);
			let mut b: Vec<u8> = vec![];
			match fm {
				Fmt::Msgpack => {
					b.push(if kind == 1 { 0xdf } else { 0xdd });
					b.extend_from_slice(&(n as u32).to_be_bytes());
					for i in 0..n {
						match kind {
							0 => b.push((i % 100) as u8),
							1 => {
								let k = format!("k{i}");
								b.push(0xa0 | k.len() as u8);
								b.extend_from_slice(k.as_bytes());
								b.push(1);
							}
							_ => b.extend_from_slice(&[0x81, 0xa1, b'a', 0x01]),
						}
					}
				}
				Fmt::Json => {
					b.push(if kind == 1 { b'{' } else { b'[' });
					for i in 0..n {
						if i > 0 {
							b.push(b',');
						}
						match kind {
							0 => b.extend_from_slice(b"1"),
							1 => b.extend_from_slice(format!("\"k{i}\":1").as_bytes()),
							_ => b.extend_from_slice(b"{\"a\":1}"),
						}
					}
					b.push(if kind == 1 { b'}' } else { b']' });
				}
				_ => {
					let flow = r.chance(1, 3);
					if flow {
						b.push(if kind == 1 { b'{' } else { b'[' });
					}
					for i in 0..n {
						let item = match kind {
							0 => "a".to_owned(),
							1 => format!("k{i}: 1"),
							_ => "{a: 1}".to_owned(),
						};
						if flow {
							if i > 0 {
								b.extend_from_slice(b", ");
							}
							b.extend_from_slice(item.as_bytes());
						} else {
							if kind != 1 {
								b.extend_from_slice(b"- ");
							}
							b.extend_from_slice(item.as_bytes());
							b.push(b'\n');
						}
					}
					if flow {
						b.push(if kind == 1 { b'}' } else { b']' });
						b.push(b'\n');
					}
				}
			}
			(b, fm, "wide")
		} else if fam < 14 {
			let n = r.range(0, 64);
			((0..n).map(|_| r.next() as u8).collect(), *r.pick(&ALL_FMTS), "random")
		} else if fam < 38 {
			let (cf, s) = corpus_stream(&mut r, 4);
			let mut b = s.bytes;
			let (_, o) = corpus_stream(&mut r, 2);
			gen::mutate(&mut r, &mut b, &o.bytes);
			(b, cf, "mutant")
		} else if fam < 50 {
			let fm = *r.pick(&ALL_FMTS);
			let n = r.range(1, 14);
			(gen::random_tokens(&mut r, &gen::alphabet(fm), n), fm, "tokens")
		} else if fam < 62 {
			let fm = *r.pick(&ALL_FMTS);
			let shape = if fm == Fmt::Msgpack { *r.pick(&gen::SHAPES) } else { *r.pick(&gen::SHAPES[..4]) };
			let limit = super::c18::limit_of(fm);
			// Any *text* with deeply nested mappings may reach libyaml (explicit YAML, a
			// wrong -f, or the YAML trial of detection after JSON's recursion limit
			// refused it), whose scanner is quadratic in the depth of flow mappings:
			// keep such shapes at depths that finish within the watchdog.
			let yaml_maps = fm != Fmt::Msgpack && shape != gen::Shape::Arrays;
			let d = if fm == Fmt::Msgpack && r.chance(1, 4) {
				// MessagePack is rejected at its depth limit long before the whole
				// input is looked at, so far-beyond depths are cheap in every tier.
				r.log_range(2_000, 1_000_000)
			} else {
				deep_depth(&mut r, limit, yaml_maps, t)
			};
			(gen::nested(fm, shape, d, r.next()), fm, "deep")
		} else if fam < 70 {
			(lengths_doc(&mut r), Fmt::Msgpack, "lengths")
		} else if fam < 76 {
			(alias_doc(&mut r), Fmt::Yaml, "yaml_aliases")
		} else if fam < 86 {
			// valid documents with values some targets must refuse
			let f = *r.pick(&[Fmt::Msgpack, Fmt::Yaml]);
			let cfg = GenCfg { bytes: f == Fmt::Msgpack, nonstring_keys: true, null: true, big_u64: true, ..GenCfg::common() };
			let nd = r.range(1, 3);
			let (s, _) = gen::gen_stream(&mut r, f, nd, &cfg, true);
			(s.bytes, f, "refused_by_target")
		} else if fam < 94 {
			let mut cfg = GenCfg::common();
			cfg.max_depth = 2;
			let (s, _) = gen::gen_stream(&mut r, Fmt::Yaml, 1, &cfg, true);
			let text = String::from_utf8_lossy(&s.bytes).into_owned();
			let big = r.chance(1, 3);
			let text = if big { String::from_utf8_lossy(&gen::boundary_text(&mut r, Fmt::Yaml)).into_owned() } else { text };
			let mut b = super::c02::encode_utf(&text, r.usize_below(4), r.chance(1, 2));
			if !big || r.chance(1, 3) {
				gen::mutate(&mut r, &mut b, &[0xd8, 0x00, 0xdc, 0x00, 0xff, 0xff]);
			}
			(b, Fmt::Yaml, "utf16_32")
		} else {
			let b: &[u8] = *r.pick(&[&b""[..], b"\xef\xbb\xbf", b"\xff\xfe", b"\xfe\xff", b"\xff\xfe\x00\x00", b"\x00\x00\xfe\xff", b"\n", b" ", b"\xef\xbb\xbf{}", b"---", b"...", b"\x00"]);
			(b.to_vec(), *r.pick(&ALL_FMTS), "empty_or_bom")
		};
		families.push(family);
		let from = match r.below(10) {
			0..=3 => Some(f),
			4..=6 => None,
			_ => Some(*r.pick(&ALL_FMTS)),
		};
		let reader = r.chance(3, 5);
		let sched = if reader { gen::gen_sched(&mut r, bytes.len()) } else { Sched::whole() };
		let mut c = Call::reader(bytes, from, sched);
		c.reader = reader;
		if reader && r.chance(1, 6) {
			c.rfault = Some(RFault { at: r.range(0, c.bytes.len()), kind: RKINDS[r.usize_below(RKINDS.len())].0.to_owned() });
		}
		if reader && r.chance(1, 10) {
			c.eintr = vec![r.range(0, 6) as u32];
		}
		calls.push(c);
	}
	let mut sc = Scenario::new(to, calls);
	if r.chance(1, 4) {
		sc.writer.sched = gen::gen_sched(&mut r, 256);
	}
	if r.chance(1, 6) {
		sc.writer.fault = Some(WFault { at: r.log_range(1, 600) - 1, kind: (*r.pick(&["other", "zero", "brokenpipe"])).to_owned() });
	}
	if r.chance(1, 12) {
		sc.writer.eintr = vec![r.range(0, 6) as u32];
	}
	if r.chance(1, 10) {
		sc.writer.flushfail = true;
		sc.flush = true;
	}
	set_param(&mut sc, "families", json!(families));
	sc.to_json()
}

fn deep_depth(r: &mut Rng, limit: usize, yaml_maps: bool, t: Tier) -> usize {
	{
		{
			let d = match r.below(4) {
				0 => (limit as i64 + r.range(0, 8) as i64 - 4) as usize,
				1 => r.range(1, limit * 2),
				2 if yaml_maps => r.log_range(200, 3_000),
				2 if t == Tier::Quick => r.log_range(1_000, 12_000),
				2 => r.log_range(1_000, 100_000),
				_ if yaml_maps || t == Tier::Quick => r.log_range(200, 3_000),
				_ => r.log_range(100_000, 1_000_000),
			};
			d
		}
	}
}

fn eval_proc(case: &J) -> Eval {
	use crate::procsim;
	let mut ev = Eval::default();
	let Some(c) = procsim::ProcCase::from_json(case) else { return ev };
	let o = procsim::run(&c);
	procsim::write_plan_note(&mut ev, &c, &o);
	ev.count("p.spawn", 1);
	ev.key = crate::rng::fnv(case.to_string().as_bytes());
	ev.trace = hash_str(&o.status());
	if !procsim::proc_invariants(&mut ev, &c, &o) {
		return ev;
	}
	if o.signal.is_none() && !matches!(o.code, Some(0 | 1)) {
		ev.violate(format!("proc/exit-{}", o.code.unwrap_or(-1)), format!("xt {:?} ended with {} on a valid command line", c.args, o.status()));
	}
	ev.count(if o.signal == Some(13) { "p.sigpipe" } else if o.code == Some(0) { "p.exit0" } else { "p.exit1" }, 1);
	ev.nontrivial = o.code == Some(1);
	ev
}

fn eval(case: &J) -> Eval {
	if case["kind"].as_str() == Some("proc") {
		return eval_proc(case);
	}
	let sc = parse(case);
	let mut ev = Eval::default();
	for f in sc.params.get("families").and_then(J::as_array).cloned().unwrap_or_default() {
		ev.count(
			match f.as_str().unwrap_or("") {
				"random" => "family.random",
				"mutant" => "family.mutant",
				"tokens" => "family.tokens",
				"deep" => "family.deep",
				"lengths" => "family.lengths",
				"yaml_aliases" => "family.yaml_aliases",
				"refused_by_target" => "family.refused_by_target",
				"utf16_32" => "family.utf16_32",
				"wide" => "family.wide",
				_ => "family.empty_or_bom",
			},
			1,
		);
	}
	let o = exec::run_with(&sc, exec::Opts { drop_out: true, measure: true, ..Default::default() });
	global_invariants(&mut ev, &sc, &o, "totality");
	add_io_counters(&mut ev, &o);
	if let Some(Err(e)) = &o.flush {
		if e.starts_with("PANIC") {
			ev.violate("global/panic/flush", format!("Translator::flush panicked: {e}"));
		}
	}
	let mut any_err = false;
	let mut prev_err = false;
	for c in &o.calls {
		let v = c.verdict.as_ref().map_or(2, exec::Verdict::code);
		ev.count(if v == 0 { "verdict.ok" } else { "verdict.err" }, 1);
		if prev_err {
			ev.count("second_call_after_error", 1);
		}
		prev_err = v == 1;
		any_err |= v == 1;
	}
	// A single allocation request in the gigabytes is an allocation bomb even if it succeeds here.
	if o.mem.largest > (1usize << 30) {
		ev.violate(format!("alloc-bomb/{}", sc.to.name()), format!("a single allocation of {} bytes was requested for a {}-byte input", o.mem.largest, sc.calls.iter().map(|c| c.bytes.len()).sum::<usize>()));
	}
	ev.nontrivial = any_err;
	let mut sh = sched_hash(&sc.writer.sched);
	for c in &sc.calls {
		sh = mix(sh, mix(sched_hash(&c.sched), u64::from(c.reader) | (c.rfault.as_ref().map_or(0, |f| f.at as u64 + 1) << 8)));
	}
	ev.key = key_of(&sc, mix(sh, hash_str(sc.writer.fault.as_ref().map_or("", |f| f.kind.as_str()))));
	ev.trace = o.trace_hash();
	ev
}
