//! C08 - TOML output is nothing or exactly one valid document.
//!
//! One run = a caller history against a TOML-target translator: 1-6 calls of
//! 0-4 documents each, from all four source formats, slice and reader, with
//! refusable defects planted at random tree positions, calls continuing after
//! a refusal. A two-variable reference model of the output object
//! (`presented`, `written`) predicts, per document, must-refuse / must-accept.

use serde_json::{json, Value as J};

use super::common::*;
use crate::exec::{self, Verdict};
use crate::gen::{self, GenCfg, V};
use crate::prop::{Eval, PropDef, Tier};
use crate::rng::{mix, Rng};
use crate::scenario::{Call, Fmt, Scenario, ALL_FMTS};
use crate::simio::Sched;

pub static DEF: PropDef = PropDef {
	id: "C08",
	level: "exploration",
	runs,
	gen,
	eval,
	shrink,
	rule: "run = history of 1-6 translate calls on one TOML-target Translator; per call 0-4 documents (TOML source: 1) drawn from: acceptable tables (incl. empty tables, nested/heterogeneous arrays of tables, keys needing quoting), non-table roots (arrays, scalars), tables with a null / an integer > i64::MAX / binary / a non-string key planted at a random tree position; sources JSON/MessagePack/YAML/TOML; slice or simulated producer with short reads; short-write consumers. Non-trivial: >= 2 documents presented in total or a planted defect. Distinct = distinct (history bytes, supply modes, schedules).",
	real: LIB_REAL,
	stub: LIB_STUB,
	assumptions: &[
		"output bytes are parsed with the harness-side `toml` crate (same crate version as xt links) and compared structurally with the generator's model value; floats are drawn from values with short exact decimal forms so that C01's float-precision question is not re-decided here",
		"documents with binary data, non-string keys or non-finite floats are in neither the must-accept nor the must-refuse set: only 'nothing or exactly one valid document' is checked for them",
	],
	expected_probes: &["doc.accept", "doc.refuse.root", "doc.refuse.null", "doc.refuse.bigint", "doc.neither", "refused_after_first", "calls>=2", "empty_table_first", "w.short", "source.json", "source.msgpack", "source.yaml", "source.toml", "accepted_then_checked_value"],
	needs_bins: false,
	watchdog_s: 30,
};

fn runs(t: Tier) -> u64 {
	match t {
		Tier::Quick => 40_000,
		Tier::Thorough => 2_000_000,
	}
}

const SAFE_FLOATS: &[f64] = &[0.5, 1.5, -2.25, 1000.0, 0.0, 3.0, -0.125, 1e10, 6.02e23, 1e-3];

fn safe_value(r: &mut Rng, depth: usize) -> V {
	if depth >= 3 || r.chance(1, 2) {
		return match r.below(5) {
			0 => V::Bool(r.chance(1, 2)),
			1 => V::I(*r.pick(&[0i64, 1, -1, 42, i64::MAX, i64::MIN, 255, 65536, -129])),
			2 => V::F(*r.pick(SAFE_FLOATS)),
			_ => V::S(gen::gen_string(r, &GenCfg::common())),
		};
	}
	if r.chance(1, 2) {
		let n = r.range(0, 3);
		V::A((0..n).map(|_| safe_value(r, depth + 1)).collect())
	} else {
		safe_table(r, depth + 1)
	}
}

fn safe_table(r: &mut Rng, depth: usize) -> V {
	let n = r.range(0, 4);
	let mut m: Vec<(V, V)> = vec![];
	for _ in 0..n {
		let k = V::S(gen::gen_string(r, &GenCfg::common()));
		if m.iter().any(|(k2, _)| *k2 == k) {
			continue;
		}
		m.push((k, safe_value(r, depth)));
	}
	V::M(m)
}

/// Replaces the node at a random position by `with` (map values / array elements / optionally a key).
pub fn plant_pub(r: &mut Rng, v: &mut V, with: &V, as_key: bool) {
	plant(r, v, with, as_key);
}

fn plant(r: &mut Rng, v: &mut V, with: &V, as_key: bool) {
	match v {
		V::M(m) if !m.is_empty() => {
			let i = r.usize_below(m.len());
			if r.chance(1, 2) && matches!(m[i].1, V::M(_) | V::A(_)) {
				plant(r, &mut m[i].1, with, as_key);
			} else if as_key {
				m[i].0 = with.clone();
			} else {
				m[i].1 = with.clone();
			}
		}
		V::A(a) if !a.is_empty() && !as_key => {
			let i = r.usize_below(a.len());
			if r.chance(1, 2) && matches!(a[i], V::M(_) | V::A(_)) {
				plant(r, &mut a[i], with, as_key);
			} else {
				a[i] = with.clone();
			}
		}
		V::M(m) => {
			if as_key {
				m.push((with.clone(), V::I(1)));
			} else {
				m.push((V::S("planted".into()), with.clone()));
			}
		}
		V::A(a) => a.push(with.clone()),
		_ => {}
	}
}

fn has(v: &V, pred: &dyn Fn(&V) -> bool) -> bool {
	if pred(v) {
		return true;
	}
	match v {
		V::A(a) => a.iter().any(|x| has(x, pred)),
		V::M(m) => m.iter().any(|(k, x)| has(k, pred) || has(x, pred)),
		_ => false,
	}
}

fn nonstring_key(v: &V) -> bool {
	match v {
		V::M(m) => m.iter().any(|(k, x)| !matches!(k, V::S(_)) || nonstring_key(x)),
		V::A(a) => a.iter().any(nonstring_key),
		_ => false,
	}
}

/// "accept", "refuse.root", "refuse.null", "refuse.bigint" or "neither".
fn classify(v: &V) -> &'static str {
	if has(v, &|x| matches!(x, V::B(_))) || nonstring_key(v) || has(v, &|x| matches!(x, V::F(f) if !f.is_finite())) {
		// A defect outside the statement's lists may mask or coincide with a listed one: never guess.
		return "neither";
	}
	if !matches!(v, V::M(_)) {
		return "refuse.root";
	}
	if has(v, &|x| matches!(x, V::Null)) {
		return "refuse.null";
	}
	if has(v, &|x| matches!(x, V::U(u) if *u > i64::MAX as u64)) {
		return "refuse.bigint";
	}
	"accept"
}

pub fn v_to_json(v: &V) -> J {
	match v {
		V::Null => J::Null,
		V::Bool(b) => json!(b),
		V::I(i) => json!({"i": i.to_string()}),
		V::U(u) => json!({"u": u.to_string()}),
		V::F(f) => json!({"f": f.to_bits().to_string()}),
		V::S(s) => json!(s),
		V::B(b) => json!({"b": crate::scenario::hex(b)}),
		V::A(a) => J::Array(a.iter().map(v_to_json).collect()),
		V::M(m) => json!({"m": m.iter().map(|(k, x)| json!([v_to_json(k), v_to_json(x)])).collect::<Vec<_>>()}),
	}
}

pub fn v_from_json(j: &J) -> Option<V> {
	Some(match j {
		J::Null => V::Null,
		J::Bool(b) => V::Bool(*b),
		J::String(s) => V::S(s.clone()),
		J::Array(a) => V::A(a.iter().map(v_from_json).collect::<Option<Vec<_>>>()?),
		J::Object(o) => {
			if let Some(x) = o.get("i") {
				V::I(x.as_str()?.parse().ok()?)
			} else if let Some(x) = o.get("u") {
				V::U(x.as_str()?.parse().ok()?)
			} else if let Some(x) = o.get("f") {
				V::F(f64::from_bits(x.as_str()?.parse().ok()?))
			} else if let Some(x) = o.get("b") {
				V::B(crate::scenario::unhex(x.as_str()?)?)
			} else {
				let mut m = vec![];
				for e in o.get("m")?.as_array()? {
					m.push((v_from_json(&e[0])?, v_from_json(&e[1])?));
				}
				V::M(m)
			}
		}
		J::Number(_) => return None,
	})
}

fn toml_equals(t: &toml::Value, v: &V) -> Result<(), String> {
	match (t, v) {
		(toml::Value::Boolean(a), V::Bool(b)) if a == b => Ok(()),
		(toml::Value::Integer(a), V::I(b)) if a == b => Ok(()),
		(toml::Value::Float(a), V::F(b)) if a.to_bits() == b.to_bits() || (*a == 0.0 && *b == 0.0) => Ok(()),
		(toml::Value::String(a), V::S(b)) if a == b => Ok(()),
		(toml::Value::Array(a), V::A(b)) => {
			if a.len() != b.len() {
				return Err(format!("array of {} elements read back with {}", b.len(), a.len()));
			}
			for (x, y) in a.iter().zip(b) {
				toml_equals(x, y)?;
			}
			Ok(())
		}
		(toml::Value::Table(a), V::M(b)) => {
			if a.len() != b.len() {
				return Err(format!("table of {} entries read back with {} ({:?})", b.len(), a.len(), a.keys().collect::<Vec<_>>()));
			}
			for (k, y) in b {
				let V::S(k) = k else { return Err("non-string key".into()) };
				let x = a.get(k).ok_or_else(|| format!("key {k:?} missing in the output"))?;
				toml_equals(x, y)?;
			}
			Ok(())
		}
		(t, v) => Err(format!("read back {t:?} where the input had {v:?}")),
	}
}

fn render_doc(r: &mut Rng, v: &V, f: Fmt) -> Option<Vec<u8>> {
	match f {
		Fmt::Json => {
			if has(v, &|x| matches!(x, V::B(_))) || nonstring_key(v) {
				return None;
			}
			Some(gen::to_json(v, r, true).into_bytes())
		}
		Fmt::Msgpack => Some(gen::to_msgpack(v, r, true)),
		Fmt::Yaml => {
			if has(v, &|x| matches!(x, V::B(_))) {
				return None;
			}
			Some(gen::to_yaml_flow(v).into_bytes())
		}
		Fmt::Toml => {
			if classify(v) != "accept" {
				return None;
			}
			gen::via_xt(&gen::to_msgpack(v, r, false), Fmt::Msgpack, Fmt::Toml)
		}
	}
}

fn gen(seed: u64, idx: u64, _t: Tier) -> J {
	let mut r = Rng::derive(seed, "C08", idx);
	let ncalls = r.log_range(1, 6);
	let mut calls = vec![];
	let mut meta = vec![];
	for _ in 0..ncalls {
		let f = *r.pick(&ALL_FMTS);
		let nd = if f == Fmt::Toml { 1 } else { *r.pick(&[0usize, 1, 1, 1, 1, 2, 2, 3, 4]) };
		let mut docs: Vec<Vec<u8>> = vec![];
		let mut dmeta = vec![];
		let mut tries = 0;
		while docs.len() < nd && tries < 20 {
			tries += 1;
			let mut v = if r.chance(1, 8) { V::M(vec![]) } else { safe_table(&mut r, 0) };
			match r.below(12) {
				0 => v = if r.chance(1, 2) { V::A(vec![safe_value(&mut r, 2)]) } else { safe_value(&mut r, 3) },
				1 => plant(&mut r, &mut v, &V::Null, false),
				2 => {
					let big = if r.chance(1, 2) { u64::MAX } else { i64::MAX as u64 + 1 };
					plant(&mut r, &mut v, &V::U(big), false);
				}
				3 => plant(&mut r, &mut v, &V::B(vec![1, 2, 255]), false),
				4 => plant(&mut r, &mut v, &V::I(7), true),
				_ => {}
			}
			if f == Fmt::Yaml && r.chance(1, 10) {
				// Spellings of a null root that only YAML has: a bare marker, a comment, '~'.
				let body: &[u8] = *r.pick(&[&b""[..], b"# just a comment", b"~", b"null", b"!!null ''"]);
				dmeta.push(json!({"class": "refuse.root", "model": J::Null}));
				docs.push(body.to_vec());
				continue;
			}
			let Some(b) = render_doc(&mut r, &v, f) else { continue };
			dmeta.push(json!({"class": classify(&v), "model": v_to_json(&v)}));
			docs.push(b);
		}
		let stream = gen::build_stream(&docs, f, &mut r, true);
		let reader = r.chance(1, 2);
		let sched = if reader { gen::gen_sched(&mut r, stream.bytes.len()) } else { Sched::whole() };
		let mut from = Some(f);
		if r.chance(1, 3) && !docs.is_empty() {
			let det = xt::verif::detect_slice(&stream.bytes).ok().flatten().map(Fmt::from_xt);
			if det == Some(f) {
				from = None;
			}
		}
		let mut c = Call::reader(stream.bytes, from, sched);
		c.reader = reader;
		calls.push(c);
		let dm: Vec<J> = dmeta.into_iter().zip(&stream.docs).map(|(mut m, (s, e))| {
			m["range"] = json!([s, e]);
			m
		}).collect();
		meta.push(json!({"fmt": f.name(), "docs": dm}));
	}
	let mut sc = Scenario::new(Fmt::Toml, calls);
	if r.chance(1, 3) {
		sc.writer.sched = gen::gen_sched(&mut r, 128);
	}
	set_param(&mut sc, "meta", J::Array(meta));
	sc.to_json()
}

fn eval(case: &J) -> Eval {
	let sc = parse(case);
	let mut ev = Eval::default();
	let meta = sc.params.get("meta").and_then(J::as_array).cloned().unwrap_or_default();
	// The history is executed call by call; after each call the consumer's byte
	// log is compared with the reference model of the output object.
	let o = exec::run(&sc);
	global_invariants(&mut ev, &sc, &o, "history");
	add_io_counters(&mut ev, &o);
	let mut presented = false; // reference model: a document was already offered
	let mut accepted: Option<(usize, usize)> = None;
	let mut total_docs = 0;
	let mut planted = false;
	for (ci, c) in o.calls.iter().enumerate() {
		let Some(m) = meta.get(ci) else { break };
		let f = m["fmt"].as_str().and_then(Fmt::parse).unwrap_or(Fmt::Json);
		ev.count(
			match f {
				Fmt::Json => "source.json",
				Fmt::Msgpack => "source.msgpack",
				Fmt::Yaml => "source.yaml",
				Fmt::Toml => "source.toml",
			},
			1,
		);
		let docs = m["docs"].as_array().cloned().unwrap_or_default();
		let wrote = c.out_after > c.out_before;
		let v = c.verdict.clone().unwrap_or(Verdict::Ok);
		if v.code() == 2 {
			return ev;
		}
		// Walk the documents of this call through the model. xt stops at the first refused one.
		let mut expect_err: Option<String> = None; // must this call fail, and why
		let mut may_err = false;
		let mut must_write: Option<usize> = None;
		let mut may_write = false;
		for (di, d) in docs.iter().enumerate() {
			total_docs += 1;
			let class = d["class"].as_str().unwrap_or("neither");
			ev.count(
				match class {
					"accept" => "doc.accept",
					"refuse.root" => "doc.refuse.root",
					"refuse.null" => "doc.refuse.null",
					"refuse.bigint" => "doc.refuse.bigint",
					_ => "doc.neither",
				},
				1,
			);
			if class != "accept" {
				planted = true;
			}
			if presented {
				ev.count("refused_after_first", 1);
				expect_err = Some(format!("document {di} of call {ci} comes after the first document presented to this output"));
				break;
			}
			presented = true;
			match class {
				"accept" => {
					must_write = Some(di);
					if d["model"].get("m").and_then(J::as_array).is_some_and(Vec::is_empty) && ci + 1 < o.calls.len() {
						ev.count("empty_table_first", 1);
					}
				}
				"neither" => {
					may_err = true;
					may_write = true;
					break;
				}
				other => {
					expect_err = Some(format!("document {di} of call {ci} must be refused ({other})"));
					break;
				}
			}
		}
		let tag = format!("{}/{}", f.name(), if sc.calls[ci].reader { "reader" } else { "slice" });
		if let Some(why) = &expect_err {
			if v.is_ok() {
				ev.violate(format!("not-refused/{tag}"), format!("{why}, but the call returned Ok"));
			}
		} else if !may_err && !v.is_ok() {
			ev.violate(format!("refused-acceptable/{tag}"), format!("call {ci} holds only acceptable documents but failed: {}", v.text()));
		}
		match (must_write, wrote) {
			(Some(di), true) => accepted = Some((ci, di)),
			(Some(di), false) => {
				// An empty table serialises to zero bytes.
				let empty = docs[di]["model"].get("m").and_then(J::as_array).is_some_and(Vec::is_empty);
				if !empty && v.is_ok() {
					ev.violate(format!("accepted-not-written/{tag}"), format!("call {ci} succeeded for an acceptable non-empty table but wrote nothing"));
				}
				if empty {
					accepted = Some((ci, di));
				}
			}
			(None, true) => {
				if may_write {
					accepted = Some((ci, 0));
				} else {
					ev.violate(format!("wrote-for-refused/{tag}"), format!("call {ci} wrote {} bytes although every document it presented had to be refused without output", c.out_after - c.out_before));
				}
			}
			(None, false) => {}
		}
	}
	// Whole-output clauses.
	if !o.out.is_empty() {
		match std::str::from_utf8(&o.out).ok().and_then(|s| s.parse::<toml::Table>().ok()) {
			None => ev.violate("output-not-toml", format!("the bytes written to the TOML output are not one valid TOML document: {:?}", show(&o.out))),
			Some(table) => {
				if let Some((ci, di)) = accepted {
					let d = &meta[ci]["docs"][di];
					// A document holding binary data is outside the statement's refusal list, but not
					// outside its first sentence: TOML has no binary type, so whatever xt writes for
					// such a document cannot read back as the input value.
					let with_bytes = d["class"].as_str() == Some("neither") && v_from_json(&d["model"]).is_some_and(|m| has(&m, &|x| matches!(x, V::B(_))));
					if d["class"].as_str() == Some("accept") || with_bytes {
						if let Some(model) = v_from_json(&d["model"]) {
							ev.count("accepted_then_checked_value", 1);
							if let Err(e) = toml_equals(&toml::Value::Table(table), &model) {
								ev.violate(format!("value/{}", meta[ci]["fmt"].as_str().unwrap_or("?")), format!("the TOML output does not read back as the input document: {e}; output {:?}", show(&o.out)));
							}
						}
					}
					// Exactly the bytes of that one document translated alone.
					if let Some(r) = d.get("range").and_then(J::as_array) {
						let (s, e) = (r[0].as_u64().unwrap_or(0) as usize, r[1].as_u64().unwrap_or(0) as usize);
						let f = meta[ci]["fmt"].as_str().and_then(Fmt::parse).unwrap_or(Fmt::Json);
						if e <= sc.calls[ci].bytes.len() && s <= e {
							let (v1, alone) = exec::t0(&sc.calls[ci].bytes[s..e], Some(f), Fmt::Toml);
							ev.execs += 1;
							if v1.is_ok() && alone != o.out {
								ev.violate("not-exactly-one-document", format!("output {:?} is not exactly the translation of the one accepted document {:?}", show(&o.out), show(&alone)));
							}
						}
					}
				}
			}
		}
	}
	ev.count("calls>=2", u64::from(sc.calls.len() >= 2));
	ev.nontrivial = total_docs >= 2 || planted;
	let mut sh = sched_hash(&sc.writer.sched);
	for c in &sc.calls {
		sh = mix(sh, mix(sched_hash(&c.sched), u64::from(c.reader)));
	}
	ev.key = key_of(&sc, sh);
	ev.trace = o.trace_hash();
	ev
}

fn shrink(case: &J) -> Vec<J> {
	let sc = parse(case);
	let meta = sc.params.get("meta").and_then(J::as_array).cloned().unwrap_or_default();
	let mut out = vec![];
	if sc.calls.len() > 1 {
		for i in 0..sc.calls.len() {
			let mut s = sc.clone();
			s.calls.remove(i);
			let mut m = meta.clone();
			if i < m.len() {
				m.remove(i);
			}
			set_param(&mut s, "meta", J::Array(m));
			out.push(s.to_json());
		}
	}
	for s in crate::shrink::scenario_shrinks(&sc) {
		if s.calls.len() == sc.calls.len() && s.calls.iter().zip(&sc.calls).all(|(a, b)| a.bytes == b.bytes) {
			out.push(s.to_json());
		}
	}
	for i in 0..sc.calls.len() {
		if sc.calls[i].reader {
			let mut s = sc.clone();
			s.calls[i].reader = false;
			s.calls[i].sched = Sched::whole();
			out.push(s.to_json());
		}
	}
	out
}
