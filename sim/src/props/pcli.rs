//! Process-level checks C13-C16: the real binaries under the interposer.
//! Each check has its own workload emphasis and applies only its own
//! property's clauses; every spawn additionally enforces the process-level
//! totality invariants (only exit 0/1/2 or SIGPIPE, no panic text, no timeout).

use serde_json::{json, Value as J};

use crate::gen::{self, GenCfg};
use crate::procsim::{self, expect_run, parse_args, proc_invariants, Class, FileSpec, ProcCase, ProcOutcome, ReadPlan, EIO, ENOSPC, EPIPE, PROC_REAL, PROC_STUB};
use crate::prop::{Eval, PropDef, Tier};
use crate::rng::{fnv, hash_str, mix, Rng};
use crate::scenario::{preview, Fmt, ALL_FMTS, STREAM_FMTS};
use crate::simio::Sched;

fn show(b: &[u8]) -> String {
	preview(b, 80)
}

fn is_prefix(a: &[u8], b: &[u8]) -> bool {
	a.len() <= b.len() && b[..a.len()] == *a
}

// ------------------------------------------------------------------ workload pieces

/// Content classes: ("translatable"|"malformed"|"undetectable"|"unrepresentable", format, bytes).
fn content(r: &mut Rng, class: &str, to: Fmt, max_docs: usize) -> (Fmt, Vec<u8>) {
	let f = *r.pick(&ALL_FMTS);
	let mut cfg = if to == Fmt::Toml || f == Fmt::Toml { GenCfg::toml_safe() } else { GenCfg::common() };
	cfg.max_depth = r.range(1, 3);
	cfg.max_len = r.range(1, 4);
	match class {
		"malformed" => {
			let (s, _) = gen::gen_stream(r, f, 1, &cfg, false);
			let mut b = s.bytes;
			match f {
				Fmt::Msgpack => b.truncate(b.len().saturating_sub(1).max(1)),
				_ => {
					let at = r.range(0, b.len());
					b.insert(at, 0x01);
				}
			}
			(f, b)
		}
		"undetectable" => {
			if r.chance(1, 2) {
				return (Fmt::Json, (*r.pick(&[&b"\x01\x02\x03"[..], b"plain words only", b"\xc1", b"= = =", b"\"unterminated", b"\xff\xfe\xfd"])).to_vec());
			}
			// Free text (a YAML scalar at best): lines of 10-120 bytes mixing ASCII words with
			// 2-, 3- and 4-byte characters at every alignment.
			let mut s = String::from("w");
			let target = r.range(10, 120);
			while s.len() < target {
				match r.below(6) {
					0 => s.push(' '),
					1 => s.push_str(*r.pick(&["\u{e9}", "\u{df}", "\u{7ff}"])),
					2 => s.push_str(*r.pick(&["\u{65e5}", "\u{672c}", "\u{20ac}"])),
					3 => s.push_str(*r.pick(&["\u{1F600}", "\u{10348}"])),
					_ => s.push((b'a' + r.below(26) as u8) as char),
				}
			}
			if r.chance(1, 2) {
				s.push_str("\nsecond line");
			}
			(Fmt::Json, s.into_bytes())
		}
		"unrepresentable" => {
			// a value the target refuses
			match to {
				Fmt::Json => (Fmt::Yaml, b"---\n? [1, 2]\n: x\n".to_vec()),
				Fmt::Yaml => (Fmt::Msgpack, vec![0x91, 0xc4, 0x02, 0x01, 0x02]),
				Fmt::Toml => (Fmt::Json, b"{\"a\": null}".to_vec()),
				Fmt::Msgpack => (Fmt::Json, b"[1, 2".to_vec()),
			}
		}
		_ => {
			let n = if f == Fmt::Toml || to == Fmt::Toml { 1 } else { r.range(1, max_docs.max(1)) };
			let mut tries = 0;
			loop {
				tries += 1;
				let (s, _) = gen::gen_stream(r, f, n, &cfg, true);
				if crate::exec::t0(&s.bytes, Some(f), to).0.is_ok() || tries > 6 {
					return (f, s.bytes);
				}
			}
		}
	}
}

fn ext_for(r: &mut Rng, f: Fmt) -> String {
	let base = match f {
		Fmt::Json => "json",
		Fmt::Msgpack => "msgpack",
		Fmt::Toml => "toml",
		Fmt::Yaml => {
			if r.chance(1, 2) {
				"yaml"
			} else {
				"yml"
			}
		}
	};
	base.chars().map(|c| if r.chance(1, 4) { c.to_ascii_uppercase() } else { c }).collect()
}

fn plan_for(r: &mut Rng, len: usize, shortread: bool) -> ReadPlan {
	ReadPlan { sched: if shortread { gen::gen_sched(r, len) } else { Sched::whole() }, fail: None, eintr: vec![] }
}

fn fmt_flag(r: &mut Rng, flag: char, f: Fmt) -> Vec<String> {
	let name = if r.chance(1, 2) { f.name().to_owned() } else { f.letter().to_owned() };
	match r.below(3) {
		0 => vec![format!("-{flag}{name}")],
		1 => vec![format!("-{flag}"), name],
		_ => vec![format!("-{flag}={name}")],
	}
}

fn bin_of(r: &mut Rng) -> String {
	if r.chance(1, 2) { "debug" } else { "release" }.to_owned()
}

fn key_of(case: &J) -> u64 {
	let mut c = case.clone();
	if let Some(o) = c.as_object_mut() {
		o.remove("params");
	}
	fnv(c.to_string().as_bytes())
}

fn parse_case(case: &J) -> ProcCase {
	ProcCase::from_json(case).expect("malformed process case")
}

fn trace_of(o: &ProcOutcome) -> u64 {
	let mut h = hash_str(&o.status());
	for l in &o.log {
		let mut it = l.split(' ');
		let kind = it.next().unwrap_or("");
		h = mix(h, hash_str(kind));
		if kind == "W" || kind == "R" {
			// bucket sizes
			let nums: Vec<i64> = l.split(' ').filter_map(|x| x.parse().ok()).collect();
			for n in nums.iter().take(3) {
				h = mix(h, (*n).clamp(-2, 4096) as u64 / 64);
			}
		}
	}
	h
}

fn shrink(case: &J) -> Vec<J> {
	let c = parse_case(case);
	let mut out = vec![];
	// Drop an argument (and an input file with it).
	for i in 0..c.args.len() {
		let mut n = c.clone();
		n.args.remove(i);
		out.push(n.to_json());
	}
	if c.nommap {
		let mut n = c.clone();
		n.nommap = false;
		out.push(n.to_json());
	}
	if !c.wsched.is_whole() {
		let mut n = c.clone();
		n.wsched = Sched::whole();
		out.push(n.to_json());
	}
	if c.bin != "release" {
		let mut n = c.clone();
		n.bin = "release".into();
		out.push(n.to_json());
	}
	for fi in 0..c.files.len() {
		if c.files[fi].plan.as_ref().is_some_and(|p| !p.sched.is_whole()) {
			let mut n = c.clone();
			n.files[fi].plan.as_mut().unwrap().sched = Sched::whole();
			out.push(n.to_json());
		}
		if c.files[fi].bytes.len() <= 4096 {
			for b in crate::shrink::byte_removals(&c.files[fi].bytes).into_iter().take(40) {
				let mut n = c.clone();
				n.files[fi].bytes = b;
				out.push(n.to_json());
			}
		}
	}
	if let Some((k, e)) = c.wfail {
		for nk in [0, k / 2, k.saturating_sub(1)] {
			if nk < k {
				let mut n = c.clone();
				n.wfail = Some((nk, e));
				out.push(n.to_json());
			}
		}
	}
	out
}

fn text(b: &[u8]) -> String {
	String::from_utf8_lossy(b).into_owned()
}

// ------------------------------------------------------------------ C13

pub static C13: PropDef = PropDef {
	id: "C13",
	level: "exploration",
	runs: |t| match t {
		Tier::Quick => 12_000,
		Tier::Thorough => 300_000,
	},
	gen: gen13,
	eval: eval13,
	shrink,
	rule: "run = one spawn of the real binary (debug or release) under the interposer. The first run indices enumerate EVERY argument vector of <= 2 tokens over the vocabulary (79 tokens) {-f/-t x every valid name and alias in attached/detached/'=' form, missing option values, invalid names (also empty and prefixes of valid names), unknown short/long options, -h, --help, -V, --version, --, -, existing/missing/directory paths}; later indices sample vectors of up to 6 tokens. Input files hold translatable, malformed, undetectable or target-unrepresentable content; stdout is a file, or (interposer) a terminal; inputs may be unreadable (EIO at byte k) or unmappable. Non-trivial: the vector has >= 2 tokens or an environment fault (tty, read failure, nommap) fired. Distinct = distinct (argv, file contents, plan).",
	real: PROC_REAL,
	stub: PROC_STUB,
	assumptions: &["reference model of the command line: 60 lines following lexopt's documented conventions; vectors in which a help/version request and an invalid token both occur accept exit 0 or 2 (the statement does not order them)", "per-input expectations come from the library (same supply mode as the CLI would use)"],
	expected_probes: &["class.usage", "class.help", "class.version", "class.run.ok", "class.run.fail", "p.tty", "tty.msgpack_refused", "p.readfail.fired", "exhaustive.block", "fail.missing", "fail.directory", "fail.translate", "bin.debug", "bin.release"],
	needs_bins: true,
	watchdog_s: 90,
};

fn vocab() -> Vec<String> {
	let mut v: Vec<String> = vec![];
	for flag in ['f', 't'] {
		for name in ["j", "json", "m", "msgpack", "t", "toml", "y", "yaml"] {
			v.push(format!("-{flag}{name}"));
			v.push(format!("-{flag}={name}"));
		}
		v.push(format!("-{flag}"));
		for bad in ["xml", "", "js", "JSON", "yam", "jsonx"] {
			v.push(format!("-{flag}{bad}"));
			if !bad.is_empty() {
				v.push(format!("-{flag}={bad}"));
			}
		}
		v.push(format!("-{flag}="));
	}
	for w in ["json", "y", "xml", "-h", "--help", "-V", "--version", "--", "-", "-x", "--bogus", "-hV", "-Vx", "ok.json", "ok.yaml", "bad.json", "missing.json", "dir", "noext", "und", "-z9"] {
		v.push(w.to_owned());
	}
	v
}

fn std_files(r: &mut Rng, to: Fmt) -> Vec<FileSpec> {
	let (_, ok_json) = loop {
		let c = content(r, "translatable", to, 2);
		if c.0 == Fmt::Json {
			break c;
		}
	};
	let ok_yaml = loop {
		let c = content(r, "translatable", to, 2);
		if c.0 == Fmt::Yaml {
			break c.1;
		}
	};
	let noext = content(r, "translatable", to, 1).1;
	let und = content(r, "undetectable", to, 1).1;
	let mk = |name: &str, kind: &str, bytes: Vec<u8>| FileSpec { name: name.to_owned(), kind: kind.to_owned(), bytes, plan: Some(ReadPlan::default()) };
	vec![mk("ok.json", "file", ok_json), mk("ok.yaml", "file", ok_yaml), mk("bad.json", "file", b"{\"a\": [1, 2,, ]}".to_vec()), mk("missing.json", "missing", vec![]), mk("dir", "dir", vec![]), mk("noext", "file", noext), mk("und", "file", und), mk("json", "file", b"[1]".to_vec()), mk("y", "file", b"- 1\n".to_vec()), mk("xml", "file", b"<a/>".to_vec())]
}

fn gen13(seed: u64, idx: u64, _t: Tier) -> J {
	let mut r = Rng::derive(seed, "C13", idx);
	let v = vocab();
	let n = v.len() as u64;
	let block = 1 + n + n * n;
	let mut args: Vec<String> = vec![];
	let exhaustive = idx < block;
	if exhaustive {
		if idx >= 1 + n {
			let k = idx - 1 - n;
			args.push(v[(k / n) as usize].clone());
			args.push(v[(k % n) as usize].clone());
		} else if idx >= 1 {
			args.push(v[(idx - 1) as usize].clone());
		}
	} else {
		let len = r.range(1, 6);
		for _ in 0..len {
			// bias towards well-formed runs
			if r.chance(1, 2) {
				args.push((*r.pick(&["ok.json", "ok.yaml", "noext", "-", "bad.json", "missing.json", "dir", "und"])).to_owned());
			} else {
				args.push(r.pick(&v).clone());
			}
		}
	}
	// The target the vector most likely selects decides what "translatable" files contain.
	let to = parse_args(&args).to;
	let mut c = ProcCase { bin: bin_of(&mut r), args, files: std_files(&mut r, to), ..Default::default() };
	let cls = if r.chance(3, 4) { "translatable" } else { "malformed" };
	c.stdin = Some(content(&mut r, cls, to, 2).1);
	let sr = r.chance(1, 2);
	c.stdin_plan = Some(plan_for(&mut r, 64, sr));
	if !exhaustive {
		c.tty = r.chance(1, 6);
		c.nommap = r.chance(1, 5);
		let named: Vec<usize> = (0..c.files.len()).filter(|i| c.files[*i].kind == "file" && c.args.contains(&c.files[*i].name)).collect();
		if r.chance(1, 4) && !named.is_empty() {
			let fi = *r.pick(&named);
			let at = r.range(0, c.files[fi].bytes.len());
			c.files[fi].plan = Some(ReadPlan { sched: Sched::whole(), fail: Some((at, EIO)), eintr: vec![] });
			c.nommap = true;
		}
	} else {
		c.tty = idx % 7 == 3;
	}
	c.params.insert("exhaustive".into(), json!(exhaustive));
	if !exhaustive && idx % 20 == 19 {
		c.params.insert("fidelity_pty".into(), json!(true));
		c.tty = true;
	}
	if !exhaustive && idx % 20 == 9 {
		// stdout is a real pipe whose reader takes everything
		c.params.insert("fidelity_pipe".into(), json!(true));
		c.tty = false;
	}
	c.to_json()
}

fn eval13(case: &J) -> Eval {
	let c = parse_case(case);
	let mut ev = Eval::default();
	let p = parse_args(&c.args);
	if c.params.get("fidelity_pty").is_some() && p.class == Class::Run && !p.ambiguous {
		// Fidelity run: stdout is a real pseudo-terminal.
		ev.key = key_of(case);
		ev.trace = hash_str("pty");
		let mut real_case = c.clone();
		real_case.wsched = Sched::whole();
		for f in &mut real_case.files {
			f.plan = None;
		}
		let o = procsim::run_real(&real_case, &procsim::Real::Pty);
		ev.execs += 1;
		ev.count("fidelity.pty", 1);
		if !proc_invariants(&mut ev, &c, &o) {
			return ev;
		}
		let mut model = c.clone();
		model.nommap = false;
		for f in &mut model.files {
			f.plan = None;
		}
		let ex = expect_run(&model, &p);
		if ex.lib_panic.is_some() {
			return ev;
		}
		let got: Vec<u8> = o.stdout.iter().copied().filter(|b| *b != b'\r').collect();
		if p.to == Fmt::Msgpack {
			if o.code != Some(1) || !got.is_empty() {
				ev.violate("real/tty/msgpack-written", format!("xt {:?}: stdout is a REAL terminal and the target is MessagePack: ended with {}, {} bytes reached the terminal", c.args, o.status(), got.len()));
			}
		} else if o.code != Some(ex.exit) {
			ev.violate(format!("exit/run-expected-{}-got-{}", ex.exit, o.code.unwrap_or(-1)), format!("xt {:?}: on a real terminal: expected exit {}, got {}", c.args, ex.exit, o.status()));
		} else if ex.exit == 0 && p.to != Fmt::Msgpack {
			let want: Vec<u8> = ex.maximal.iter().copied().filter(|b| *b != b'\r').collect();
			// The line discipline may alter control characters; compare only printable ASCII outputs.
			if want.iter().all(|b| *b == b'\n' || (0x20..0x7f).contains(b)) && got != want {
				ev.violate("stdout/incomplete-on-success", format!("xt {:?}: on a real terminal stdout carried {:?}, expected {:?}", c.args, show(&got), show(&want)));
			}
		}
		// The stub (isatty answered by the interposer, same plan-free inputs) must agree on the exit status.
		let so = procsim::run(&model);
		ev.execs += 1;
		if so.code != o.code || so.signal != o.signal {
			ev.violate("harness/fidelity-pty-disagrees", format!("xt {:?}: real pty: {}; isatty stub: {}", c.args, o.status(), so.status()));
		}
		ev.nontrivial = true;
		return ev;
	}
	let o = if c.params.get("fidelity_pipe").is_some() {
		// Fidelity run: same oracle, but stdout is a real pipe (the interposer is not loaded,
		// so planned read faults do not apply: the model is told the same).
		ev.count("fidelity.pipe", 1);
		procsim::run_real(&c, &procsim::Real::ClosingPipe(usize::MAX))
	} else {
		procsim::run(&c)
	};
	let c = if c.params.get("fidelity_pipe").is_some() {
		let mut m = c.clone();
		m.nommap = false;
		for f in &mut m.files {
			f.plan = None;
		}
		m
	} else {
		c
	};
	procsim::write_plan_note(&mut ev, &c, &o);
	ev.count("exhaustive.block", u64::from(c.params.get("exhaustive").and_then(J::as_bool).unwrap_or(false)));
	ev.key = key_of(case);
	ev.trace = trace_of(&o);
	if !proc_invariants(&mut ev, &c, &o) {
		return ev;
	}
	let code = o.code.unwrap_or(-1);
	let (out, err) = (text(&o.stdout), text(&o.stderr));
	let args = format!("{:?}", c.args);
	let usage_ok = |ev: &mut Eval| {
		if !(err.starts_with("xt error") && err.to_ascii_lowercase().contains("usage")) {
			ev.violate("usage/stderr", format!("xt {args}: exit 2 but stderr is not an 'xt error' line followed by the usage text: {:?}", show(&o.stderr)));
		}
		if !o.stdout.is_empty() {
			ev.violate("usage/stdout-not-empty", format!("xt {args}: invalid command line but stdout received {:?}", show(&o.stdout)));
		}
		if o.any_input_read() {
			ev.violate("usage/input-read", format!("xt {args}: invalid command line but an input was opened/read: {:?}", o.log));
		}
	};
	let help_ok = |ev: &mut Eval, class: &Class| {
		let good = match class {
			Class::Version => out.starts_with("xt ") && out.lines().count() == 1,
			_ => out.to_ascii_lowercase().contains("usage"),
		};
		if !good {
			ev.violate("help/stdout", format!("xt {args}: exit 0 for a help/version request but stdout is {:?}", show(&o.stdout)));
		}
	};
	match (&p.class, p.ambiguous) {
		(_, true) => {
			// help/version and an invalid token both occur: 0 or 2.
			ev.count("class.ambiguous", 1);
			match code {
				0 => {
					if !(out.to_ascii_lowercase().contains("usage") || (out.starts_with("xt ") && out.lines().count() == 1)) {
						ev.violate("help/stdout", format!("xt {args}: exit 0 for a help/version request but stdout is {:?}", show(&o.stdout)));
					}
				}
				2 => usage_ok(&mut ev),
				_ => ev.violate("exit/ambiguous", format!("xt {args}: exit {code}, expected 0 or 2")),
			}
		}
		(Class::Usage, _) => {
			ev.count("class.usage", 1);
			if code != 2 {
				ev.violate(format!("exit/usage-got-{code}"), format!("xt {args}: the command line is invalid but xt ended with {} (stdout {:?}, stderr {:?})", o.status(), show(&o.stdout), show(&o.stderr)));
			} else {
				usage_ok(&mut ev);
			}
		}
		(Class::Help | Class::Version, _) => {
			ev.count(if p.class == Class::Help { "class.help" } else { "class.version" }, 1);
			if code != 0 {
				ev.violate(format!("exit/help-got-{code}"), format!("xt {args}: help/version requested but xt ended with {}", o.status()));
			} else {
				help_ok(&mut ev, &p.class);
			}
		}
		(Class::Run, _) => {
			let ex = expect_run(&c, &p);
			if ex.lib_panic.is_some() {
				return ev;
			}
			ev.count(if ex.exit == 0 { "class.run.ok" } else { "class.run.fail" }, 1);
			if code != ex.exit {
				ev.violate(format!("exit/run-expected-{}-got-{code}", ex.exit), format!("xt {args}: expected exit {} ({}), got {}; stderr {:?}", ex.exit, if ex.exit == 0 { "every input translates".to_owned() } else { ex.failure_kind.clone() }, o.status(), show(&o.stderr)));
			}
			if code == 2 {
				return ev;
			}
			if ex.exit == 1 && code == 1 {
				match ex.failure_kind.as_str() {
					"missing" => ev.count("fail.missing", 1),
					"directory" => ev.count("fail.directory", 1),
					"tty-guard" => ev.count("tty.msgpack_refused", 1),
					k if k.starts_with("translate") => ev.count("fail.translate", 1),
					_ => {}
				}
				if !err.starts_with("xt error") {
					ev.violate("stderr/not-xt-error", format!("xt {args}: exit 1 but stderr does not begin with 'xt error': {:?}", show(&o.stderr)));
				}
				if let Some((_, name)) = &ex.failing {
					let named = err.contains(name.as_str()) || (name == "standard input" && err.to_ascii_lowercase().contains("stdin"));
					if ex.failure_kind != "stdin-twice" && !named {
						ev.violate("stderr/input-not-named", format!("xt {args}: the failure belongs to input {name:?} but stderr does not name it: {:?}", show(&o.stderr)));
					}
				}
				if ex.failure_kind == "tty-guard" && (!o.stdout.is_empty() || o.fd1_writes() > 0) {
					ev.violate("tty/msgpack-written", format!("xt {args}: stdout is a terminal and the target is MessagePack, yet {} bytes were written", o.stdout.len()));
				}
			}
			// stdout carries only translated data.
			if !is_prefix(&o.stdout, &ex.maximal) {
				ev.violate("stdout/not-translated-data", format!("xt {args}: stdout {:?} is not (a prefix of) the translated data {:?}", show(&o.stdout), show(&ex.maximal)));
			}
			if code == 0 && ex.exit == 0 && o.stdout != ex.maximal {
				ev.violate("stdout/incomplete-on-success", format!("xt {args}: exit 0 but stdout has {} of {} expected bytes", o.stdout.len(), ex.maximal.len()));
			}
		}
	}
	ev.nontrivial = c.args.len() >= 2 || c.tty || c.nommap;
	ev
}

// ------------------------------------------------------------------ C14

pub static C14: PropDef = PropDef {
	id: "C14",
	level: "exploration",
	runs: |t| match t {
		Tier::Quick => 6_000,
		Tier::Thorough => 300_000,
	},
	gen: gen14,
	eval: eval14,
	shrink,
	rule: "run = one spawn: {-f absent | each format} x file name {every extension spelling in random letter case, multi-dot names, no extension, misleading extension, hidden file} x content {each format, content valid in several formats, invalid} x supply {mmap | mmap denied -> reader fallback | stdin with short reads; '-' at each position, '-' twice} x all targets, 1-3 inputs. Oracle: stdout equals the library's output for the format resolved by the rule '-f, else extension, else detection'; fd 0 is read during at most one input. Non-trivial: the resolved format comes from the extension or detection (no -f), or the supply is not plain mmap. Distinct = distinct (argv, names, contents, plan).",
	real: PROC_REAL,
	stub: PROC_STUB,
	assumptions: &["the extension rule is re-implemented in the harness from the manual (last extension, ASCII case-insensitive; .json .msgpack .toml .yaml .yml)", "real FIFOs are replaced by the mmap-denied reader fallback (the code path a FIFO takes); fidelity runs with a real FIFO are part of the thorough tier"],
	expected_probes: &["resolve.flag", "resolve.extension", "resolve.detection", "supply.mmap", "p.nommap", "supply.stdin", "stdin.twice", "ext.uppercase", "ext.misleading", "ext.multidot", "p.shortread", "bin.debug", "bin.release"],
	needs_bins: true,
	watchdog_s: 90,
};

fn ev_misleading_note(c: &mut ProcCase, name: &str, content_fmt: Fmt) {
	if procsim::extension_format(name).is_some_and(|e| e != content_fmt) {
		c.params.insert("misleading".into(), json!(true));
	}
}

fn gen14(seed: u64, idx: u64, _t: Tier) -> J {
	let mut r = Rng::derive(seed, "C14", idx);
	let to = *r.pick(&ALL_FMTS);
	let mut c = ProcCase { bin: bin_of(&mut r), ..Default::default() };
	if to != Fmt::Json || r.chance(1, 2) {
		c.args.extend(fmt_flag(&mut r, 't', to));
	}
	let flag = if r.chance(1, 3) { Some(*r.pick(&ALL_FMTS)) } else { None };
	if let Some(f) = flag {
		c.args.extend(fmt_flag(&mut r, 'f', f));
	}
	let ninputs = if to == Fmt::Toml { 1 } else { r.range(1, 3) };
	let mut stdin_positions = 0;
	for i in 0..ninputs {
		let class = *r.pick(&["translatable", "translatable", "translatable", "malformed", "ambiguous"]);
		let (f, bytes) = if class == "ambiguous" {
			let t: &[u8] = *r.pick(&[&b"[a]\n"[..], b"{}", b"[1, 2]\n", b"a = 1\n", b"a: 1\n", b"{\"a\": 1}", b"[a.b]\nc = 1\n", b"---\n- x\n"]);
			(*r.pick(&ALL_FMTS), t.to_vec())
		} else {
			content(&mut r, class, to, 3)
		};
		if r.chance(1, 5) && stdin_positions < 2 {
			// '-' (possibly twice)
			stdin_positions += 1;
			if c.stdin.is_none() {
				c.stdin = Some(bytes);
				c.stdin_plan = Some(plan_for(&mut r, 64, true));
			}
			c.args.push("-".into());
			if r.chance(1, 6) {
				c.args.push("-".into());
				stdin_positions += 1;
			}
			continue;
		}
		let stem = format!("in{i}");
		let name = match r.below(10) {
			0 => stem.clone(),
			1 => {
				let other = *r.pick(&ALL_FMTS); // possibly misleading
				format!("{stem}.{}", ext_for(&mut r, other))
			}
			2 => format!("{stem}.tar.{}", ext_for(&mut r, f)),
			3 => format!("{stem}.{}.bak", ext_for(&mut r, f)),
			4 => format!(".{}", ext_for(&mut r, f)), // hidden file, no extension
			5 => format!("{stem}.{}", ext_for(&mut r, f).to_uppercase()),
			6 => format!("sub/{stem}.{}", ext_for(&mut r, f)),
			7 => {
				// near misses of the extension table: resolved by detection, not by the extension
				let base = ext_for(&mut r, f);
				match r.below(4) {
					0 => format!("{stem}.{base}{}", *r.pick(&["2", "l", "x", "-json", "_old", "~", "5"])),
					1 => format!("{stem}.{}", &base[..base.len() - 1]),
					2 => format!("{stem}.x{base}"),
					_ => format!("{stem}.{base}."),
				}
			}
			_ => format!("{stem}.{}", ext_for(&mut r, f)),
		};
		let name = if c.files.iter().any(|f| f.name == name) { format!("d{i}/{name}") } else { name };
		ev_misleading_note(&mut c, &name, f);
		c.files.push(FileSpec { name: name.clone(), kind: "file".into(), plan: Some(plan_for(&mut r, bytes.len(), true)), bytes });
		c.args.push(name);
	}
	if c.args.iter().all(|a| a.starts_with('-') && a != "-") && c.stdin.is_none() {
		// no inputs: stdin is used implicitly
		let (_, b) = content(&mut r, "translatable", to, 2);
		c.stdin = Some(b);
		c.stdin_plan = Some(plan_for(&mut r, 64, true));
	}
	c.nommap = r.chance(1, 3);
	if c.stdin.is_some() && r.chance(1, 4) {
		// fd 0 is a regular file that an earlier reader has already partly consumed
		c.stdin_skip = r.range(1, 300);
	}
	if r.chance(1, 4) {
		c.wsched = gen::gen_sched(&mut r, 256);
	}
	if idx % 25 == 24 {
		if let Some(f) = c.files.first() {
			c.params.insert("fidelity_fifo".into(), json!(f.name));
			c.params.insert("fifo_chunk".into(), json!(r.log_range(1, 5000)));
		}
	}
	c.to_json()
}

fn eval14(case: &J) -> Eval {
	let c = parse_case(case);
	let mut ev = Eval::default();
	let p = parse_args(&c.args);
	if let Some(name) = c.params.get("fidelity_fifo").and_then(J::as_str) {
		// Fidelity run: the first input really is a FIFO fed in pieces; the model treats it as a reader.
		ev.key = key_of(case);
		ev.trace = hash_str("fifo");
		if p.class != Class::Run || p.inputs.iter().filter(|a| *a == name).count() != 1 {
			return ev;
		}
		let chunk = c.params.get("fifo_chunk").and_then(J::as_u64).unwrap_or(7) as usize;
		let mut model = c.clone();
		model.nommap = true; // every input is read through a reader in the model
		let mut real_case = c.clone();
		real_case.wsched = Sched::whole();
		let o = procsim::run_real(&real_case, &procsim::Real::Fifo(name.to_owned(), chunk));
		ev.execs += 1;
		ev.count("fidelity.fifo", 1);
		if !proc_invariants(&mut ev, &c, &o) {
			return ev;
		}
		let ex = expect_run(&model, &p);
		if ex.lib_panic.is_some() {
			return ev;
		}
		if ex.exit == 0 && (o.code != Some(0) || o.stdout != ex.maximal) {
			ev.violate("real/library-agreement/fifo", format!("xt {:?}: input {name} is a REAL FIFO written in {chunk}-byte pieces; the library (reader mode) gives {} bytes and exit 0, the binary ended with {} and {} bytes; stderr {:?}", c.args, ex.maximal.len(), o.status(), o.stdout.len(), show(&o.stderr)));
		}
		if ex.exit != 0 && o.code == Some(0) {
			ev.violate("library-agreement/cli-succeeds", format!("xt {:?}: real FIFO input: the library fails ({}), the binary exited 0", c.args, ex.failure_kind));
		}
		// The stubbed equivalent (mmap denied) must agree on the exit status.
		let so = procsim::run(&model);
		ev.execs += 1;
		if so.code != o.code || so.signal != o.signal {
			ev.violate("harness/fidelity-fifo-disagrees", format!("xt {:?}: real FIFO: {}; mmap-denied stub: {}", c.args, o.status(), so.status()));
		}
		ev.nontrivial = true;
		return ev;
	}
	let o = procsim::run(&c);
	procsim::write_plan_note(&mut ev, &c, &o);
	ev.key = key_of(case);
	ev.trace = trace_of(&o);
	if !proc_invariants(&mut ev, &c, &o) || p.class != Class::Run {
		return ev;
	}
	let ex = expect_run(&c, &p);
	if ex.lib_panic.is_some() {
		return ev;
	}
	let args = format!("{:?}", c.args);
	let code = o.code.unwrap_or(-1);
	// Probes.
	for name in &p.inputs {
		if name == "-" {
			ev.count("supply.stdin", 1);
			continue;
		}
		if p.from.is_some() {
			ev.count("resolve.flag", 1);
		} else if procsim::extension_format(name).is_some() {
			ev.count("resolve.extension", 1);
		} else {
			ev.count("resolve.detection", 1);
		}
		let ext = name.rsplit('.').next().unwrap_or("");
		ev.count("ext.uppercase", u64::from(ext.chars().any(|ch| ch.is_ascii_uppercase())));
		ev.count("ext.multidot", u64::from(name.matches('.').count() >= 2));
		if !c.nommap {
			ev.count("supply.mmap", 1);
		}
	}
	if p.inputs.is_empty() {
		ev.count("supply.stdin", 1);
		ev.count("resolve.detection", u64::from(p.from.is_none()));
	}
	ev.count("stdin.twice", u64::from(p.inputs.iter().filter(|a| *a == "-").count() >= 2));
	ev.count("ext.misleading", u64::from(c.params.get("misleading").and_then(J::as_bool).unwrap_or(false)));
	// Agreement with the library for the resolved format.
	if ex.exit == 0 {
		if code != 0 || o.stdout != ex.maximal {
			let d = o.stdout.iter().zip(&ex.maximal).position(|(a, b)| a != b).unwrap_or(o.stdout.len().min(ex.maximal.len()));
			ev.violate(
				format!("library-agreement/{}", if code != 0 { "cli-fails" } else { "bytes" }),
				format!("xt {args}: the library translates every input (formats resolved by -f / extension / detection) to {} bytes, the binary ended with {} and wrote {} bytes (first difference at {d}: {:?} vs {:?}); stderr {:?}", ex.maximal.len(), o.status(), o.stdout.len(), show(&o.stdout[d.min(o.stdout.len())..]), show(&ex.maximal[d.min(ex.maximal.len())..]), show(&o.stderr)),
			);
		}
	} else {
		if code == 0 {
			ev.violate("library-agreement/cli-succeeds", format!("xt {args}: the library fails ({}) for the resolved formats, the binary exited 0 with {:?}", ex.failure_kind, show(&o.stdout)));
		}
		if !is_prefix(&ex.complete, &o.stdout) && !is_prefix(&o.stdout, &ex.complete) {
			ev.violate("library-agreement/partial-bytes", format!("xt {args}: stdout {:?} disagrees with the library's output for the inputs before the failing one {:?}", show(&o.stdout), show(&ex.complete)));
		}
	}
	// Standard input is read at most once per run.
	let stdin_reads = o.reads_of("stdin");
	let names_stdin = p.inputs.is_empty() || p.inputs.iter().any(|a| a == "-");
	if !names_stdin && stdin_reads > 0 {
		ev.violate("stdin/read-without-dash", format!("xt {args}: no input names standard input, yet fd 0 was read {stdin_reads} times"));
	}
	if p.inputs.iter().filter(|a| *a == "-").count() >= 2 {
		if code != 1 {
			ev.violate("stdin/second-use-not-refused", format!("xt {args}: standard input named twice but xt ended with {}", o.status()));
		}
		// after the first '-' finished (EOF read), no further read of fd 0 may start a second input:
		let eofs = o.log.iter().filter(|l| l.starts_with("R 0 stdin") && l.split(' ').nth(4) == Some("0")).count();
		if eofs > 3 {
			ev.violate("stdin/read-twice", format!("xt {args}: fd 0 delivered EOF {eofs} times, i.e. it was consumed for more than one input"));
		}
	}
	ev.nontrivial = p.from.is_none() || c.nommap || ex.stdin_inputs > 0;
	ev
}

// ------------------------------------------------------------------ C15

pub static C15: PropDef = PropDef {
	id: "C15",
	level: "fault_enumeration",
	runs: |t| match t {
		Tier::Quick => 5_000,
		Tier::Thorough => 200_000,
	},
	gen: gen15,
	eval: eval15,
	shrink,
	rule: "run = one spawn with 1-6 inputs of sizes from 3 B to ~3 MB (below / around / above the 8 KiB stdout buffer); for each drawn input list the failing input is placed at EVERY position in turn (consecutive run indices) with a failure kind from {missing file, directory, syntax error, undetectable format, value the target refuses, second TOML document, second use of stdin, read error EIO at byte k}; all targets; stdout a file, optionally accepting short writes. Oracle over (stdout bytes, interposer write log, wait status). Non-trivial: >= 1 input precedes the failing one and its output is smaller than the 8 KiB buffer (so it would be lost without the per-input flush). Distinct = distinct (argv, contents, plan).",
	real: PROC_REAL,
	stub: PROC_STUB,
	assumptions: &["the expected stdout is the library's output for the same input sequence on one Translator"],
	expected_probes: &["fail.missing", "fail.directory", "fail.translate", "fail.stdin-twice", "fail.position>0", "earlier_output_below_8k", "earlier_output_above_8k", "all_ok", "p.shortwrite", "p.readfail.fired", "p.eintr", "bin.debug", "bin.release"],
	needs_bins: true,
	watchdog_s: 90,
};

fn sized_content(r: &mut Rng, to: Fmt, target_size: usize) -> (Fmt, Vec<u8>) {
	// A translatable input of roughly the requested size (JSON/YAML/MessagePack streams).
	let f = *r.pick(if to == Fmt::Toml { &[Fmt::Json, Fmt::Msgpack, Fmt::Yaml, Fmt::Toml][..] } else { &STREAM_FMTS[..] });
	if to == Fmt::Toml {
		return content(r, "translatable", to, 1);
	}
	let mut cfg = GenCfg::common();
	cfg.max_depth = 2;
	cfg.max_len = 4;
	let mut docs: Vec<Vec<u8>> = vec![];
	let mut total = 0;
	if r.chance(1, 3) {
		// Streams of tiny documents: the output is mostly separators (newlines, '---'), so the
		// write that finds the 8 KiB stdout buffer full is often a separator, not document text.
		let tiny: &[&str] = match f {
			Fmt::Json => &["0", "[]", "{}", "\"a\"", "true", "[1]", "12345", "{\"k\":1}"],
			Fmt::Yaml => &["0", "[]", "{}", "a", "true", "[1]", "12345", "k: 1"],
			_ => &[],
		};
		if !tiny.is_empty() || f == Fmt::Msgpack {
			while total < target_size {
				let d: Vec<u8> = if f == Fmt::Msgpack { r.pick(&[vec![0u8], vec![0x90], vec![0x80], vec![0xa1, b'a'], vec![0xc3], vec![0x91, 1]]).clone() } else { r.pick(tiny).as_bytes().to_vec() };
				total += d.len() + 1;
				docs.push(d);
			}
			return (f, gen::build_stream(&docs, f, r, false).bytes);
		}
	}
	let pool: Vec<Vec<u8>> = (0..8)
		.filter_map(|_| {
			let v = gen::gen_doc(r, &cfg);
			let b = gen::render(&v, f, r, false)?;
			let alone: Vec<u8> = if f == Fmt::Yaml { [b"---\n".as_slice(), &b, b"\n"].concat() } else { b.clone() };
			crate::exec::t0(&alone, Some(f), to).0.is_ok().then_some(b)
		})
		.collect();
	if pool.is_empty() {
		return content(r, "translatable", to, 1);
	}
	while total < target_size {
		let d = pool[docs.len() % pool.len()].clone();
		total += d.len() + 1;
		docs.push(d);
	}
	(f, gen::build_stream(&docs, f, r, false).bytes)
}

fn gen15(seed: u64, idx: u64, _t: Tier) -> J {
	// Consecutive indices share the input list and move the failing input through every position.
	let group = idx / 7;
	let pos = (idx % 7) as usize; // 6 = nothing fails
	let mut r = Rng::derive(seed, "C15", group);
	let to = *r.pick(&ALL_FMTS);
	let n = if to == Fmt::Toml { 1 } else { r.range(1, 6) };
	let mut c = ProcCase { bin: bin_of(&mut r), ..Default::default() };
	if to != Fmt::Json {
		c.args.extend(fmt_flag(&mut r, 't', to));
	}
	let kind = *r.pick(&["missing", "directory", "syntax", "undetectable", "unrepresentable", "toml2", "stdin-twice", "readfail"]);
	let fail_at = if pos >= n { None } else { Some(pos) };
	let mut names = vec![];
	for i in 0..n {
		let size = match r.below(6) {
			0 => r.range(3, 40),
			1 | 2 => r.log_range(40, 4000),
			3 => r.range(7800, 8600),
			4 => r.log_range(9000, 100_000),
			_ => {
				// (a regular file of a MiB or more: mapped, advised, read ahead by the kernel)
				if r.chance(1, 4) {
					r.log_range(1_000_000, 3_000_000)
				} else {
					r.log_range(100, 20_000)
				}
			}
		};
		let (f, bytes) = sized_content(&mut r, to, size);
		let ext = match f {
			Fmt::Json => "json",
			Fmt::Msgpack => "msgpack",
			Fmt::Toml => "toml",
			Fmt::Yaml => "yaml",
		};
		let name = format!("in{i}.{ext}");
		c.files.push(FileSpec { name: name.clone(), kind: "file".into(), bytes, plan: Some(ReadPlan::default()) });
		names.push(name);
	}
	if let Some(p) = fail_at {
		match kind {
			"missing" => c.files[p].kind = "missing".into(),
			"directory" => c.files[p].kind = "dir".into(),
			"syntax" => {
				let (f, b) = content(&mut r, "malformed", to, 1);
				c.files[p].bytes = b;
				c.files[p].name = format!("in{p}.{}", f.name());
				names[p] = c.files[p].name.clone();
			}
			"undetectable" => {
				c.files[p].bytes = content(&mut r, "undetectable", to, 1).1;
				c.files[p].name = format!("in{p}.dat");
				names[p] = c.files[p].name.clone();
			}
			"unrepresentable" | "toml2" => {
				let (f, b) = content(&mut r, "unrepresentable", to, 1);
				// place it after a good document when the format allows, so that partial output exists
				c.files[p].bytes = b;
				c.files[p].name = format!("in{p}.{}", f.name());
				names[p] = c.files[p].name.clone();
			}
			"stdin-twice" => {
				c.stdin = Some(c.files[p].bytes.clone());
				c.stdin_plan = Some(ReadPlan::default());
				names[p] = "-".into();
				// an earlier or the same position also names stdin
				let q = r.range(0, p);
				if q == p {
					names.insert(p, "-".into());
				} else {
					names[q] = "-".into();
				}
			}
			_ => {
				let at = r.range(0, c.files[p].bytes.len());
				c.files[p].plan = Some(ReadPlan { sched: Sched::whole(), fail: Some((at, EIO)), eintr: vec![] });
				c.nommap = true;
			}
		}
	}
	if kind != "stdin-twice" && c.stdin.is_none() && r.chance(1, 4) {
		// One of the healthy inputs arrives on standard input ('-' at any position).
		let candidates: Vec<usize> = (0..names.len()).filter(|i| Some(*i) != fail_at && c.files.get(*i).is_some_and(|f| f.kind == "file" && f.name == names[*i])).collect();
		if !candidates.is_empty() {
			let q = *r.pick(&candidates);
			c.stdin = Some(c.files[q].bytes.clone());
			c.stdin_plan = Some(plan_for(&mut r, 4096, true));
			names[q] = "-".into();
		}
	}
	c.args.extend(names);
	if r.chance(1, 3) {
		c.wsched = gen::gen_sched(&mut r, 4096);
	}
	if fail_at.is_none() && r.chance(1, 2) {
		// Transient faults (outside the statement's quantifier, weak oracle): one EINTR
		// on a write to fd 1 or on a read of an input.
		if r.chance(1, 2) {
			c.weintr = vec![r.range(0, 5) as u32];
		} else if !c.files.is_empty() {
			let fi = r.usize_below(c.files.len());
			c.files[fi].plan = Some(ReadPlan { sched: gen::gen_sched(&mut r, 4096), fail: None, eintr: vec![r.range(0, 4) as u32] });
			c.nommap = true;
		}
		c.params.insert("transient".into(), json!(true));
	}
	c.params.insert("kind".into(), json!(kind));
	c.params.insert("fail_at".into(), json!(fail_at));
	c.to_json()
}

fn eval15(case: &J) -> Eval {
	let c = parse_case(case);
	let mut ev = Eval::default();
	let p = parse_args(&c.args);
	let o = procsim::run(&c);
	procsim::write_plan_note(&mut ev, &c, &o);
	ev.key = key_of(case);
	ev.trace = trace_of(&o);
	if !proc_invariants(&mut ev, &c, &o) || p.class != Class::Run {
		return ev;
	}
	let ex = expect_run(&c, &p);
	if ex.lib_panic.is_some() {
		return ev;
	}
	let args = format!("{:?}", c.args.iter().map(|a| a.as_str()).collect::<Vec<_>>());
	let code = o.code.unwrap_or(-1);
	if ex.exit == 0 {
		ev.count("all_ok", 1);
		if code == 0 && o.stdout != ex.maximal {
			ev.violate("success/output-missing", format!("xt {args}: exit 0 but stdout holds {} of the {} bytes of output", o.stdout.len(), ex.maximal.len()));
		}
		let transient = c.params.get("transient").is_some();
		ev.count("p.eintr", u64::from(transient && o.log.iter().any(|l| l.contains(" -1 4 "))));
		if code != 0 && !(transient && code == 1 && text(&o.stderr).starts_with("xt error") && is_prefix(&o.stdout, &ex.maximal)) {
			ev.violate("success/unexpected-failure", format!("xt {args}: every input translates in the library but xt ended with {}: {:?}", o.status(), show(&o.stderr)));
		}
	} else {
		let (fi, fname) = ex.failing.clone().unwrap_or((0, String::new()));
		if c.params.get("transient").is_some() && !text(&o.stderr).contains(fname.as_str()) {
			// A transient fault made a different input fail than the model predicts (read-call
			// indices of std's specialised read paths need not match the model's): weak oracle.
			ev.count("transient_model_mismatch", 1);
			if o.code != Some(1) || !text(&o.stderr).starts_with("xt error") || !is_prefix(&o.stdout, &ex.maximal) {
				ev.violate("transient/unexpected", format!("xt {args}: under a transient fault xt ended with {} and {} bytes that are not a prefix of the expected output; stderr {:?}", o.status(), o.stdout.len(), show(&o.stderr)));
			}
			return ev;
		}
		match ex.failure_kind.as_str() {
			"missing" => ev.count("fail.missing", 1),
			"directory" => ev.count("fail.directory", 1),
			"stdin-twice" => ev.count("fail.stdin-twice", 1),
			_ => ev.count("fail.translate", 1),
		}
		ev.count("fail.position>0", u64::from(fi > 0));
		if fi > 0 {
			ev.count(if ex.complete.len() < 8192 { "earlier_output_below_8k" } else { "earlier_output_above_8k" }, 1);
		}
		if code != 1 {
			ev.violate(format!("failure/exit-{code}"), format!("xt {args}: input {fi} fails ({}) but xt ended with {}", ex.failure_kind, o.status()));
		}
		if !is_prefix(&ex.complete, &o.stdout) {
			ev.violate(
				if o.stdout.len() < ex.complete.len() { "failure/earlier-output-lost" } else { "failure/earlier-output-wrong" },
				format!("xt {args}: inputs before the failing one ({}: {}) translate to {} bytes, but stdout holds only {} bytes at exit ({} fd-1 writes): {:?}", fi, ex.failure_kind, ex.complete.len(), o.stdout.len(), o.fd1_writes(), show(&o.stdout)),
			);
		} else if !is_prefix(&o.stdout, &ex.maximal) {
			ev.violate("failure/garbage-after-earlier-output", format!("xt {args}: what follows the earlier inputs' output is not a prefix of the failing input's own partial output"));
		}
		ev.nontrivial = fi > 0 && ex.complete.len() < 8192 && !ex.complete.is_empty();
	}
	ev
}

// ------------------------------------------------------------------ C16

pub static C16: PropDef = PropDef {
	id: "C16",
	level: "fault_enumeration",
	runs: |t| match t {
		Tier::Quick => 5_000,
		Tier::Thorough => 200_000,
	},
	gen: gen16,
	eval: eval16,
	shrink,
	rule: "run = one spawn whose fd 1 accepts k bytes and then fails every write with EPIPE (consumer gone), ENOSPC (full device) or EIO; k enumerates, over consecutive run indices of one drawn workload, 0..=64, every byte around 1024/4096/8192/16384/65536 (+-2) and sampled positions up to the output length (64 KiB .. several 100 KiB); all targets, file and stdin input, one and many inputs (so the error is met in write, write_all, write_fmt and the per-input flush), short-write schedules. Every 25th run index is a fidelity run: a real pipe whose reader takes k bytes and closes, or /dev/full. Non-trivial: the fault fired (xt attempted a write after k accepted bytes). Distinct = distinct (argv, contents, k, errno, plan).",
	real: PROC_REAL,
	stub: PROC_STUB,
	assumptions: &["the interposer returns the errno the kernel would return; SIGPIPE itself is not delivered by the interposer (Rust ignores SIGPIPE at startup, so the real kernel behaviour is the EPIPE return that the interposer reproduces)", "expected bytes: the library's output for the same inputs"],
	expected_probes: &["p.epipe.fired", "p.enospc.fired", "p.eio.fired", "k=0", "k<8192", "k>=8192", "many_inputs", "stdin_input", "target.json", "target.yaml", "target.msgpack", "target.toml", "fault_in_flush", "bin.debug", "bin.release"],
	needs_bins: true,
	watchdog_s: 90,
};

fn k_positions(total: usize) -> Vec<usize> {
	let mut v: Vec<usize> = (0..=64).collect();
	for c in [1024usize, 4096, 8192, 16384, 65536] {
		for d in -2i64..=2 {
			v.push((c as i64 + d) as usize);
		}
	}
	let mut x = 97;
	while x < total + 100 {
		v.push(x);
		x = x * 3 / 2 + 13;
	}
	v.push(total.saturating_sub(1));
	v.push(total);
	v.sort_unstable();
	v.dedup();
	v
}

fn gen16(seed: u64, idx: u64, _t: Tier) -> J {
	let per = 140u64;
	let group = idx / per;
	let ki = (idx % per) as usize;
	let mut r = Rng::derive(seed, "C16", group);
	let to = *r.pick(&ALL_FMTS);
	let mut c = ProcCase { bin: bin_of(&mut r), ..Default::default() };
	if to != Fmt::Json {
		c.args.extend(fmt_flag(&mut r, 't', to));
	}
	let many = to != Fmt::Toml && r.chance(1, 2);
	let n = if many { r.range(2, 5) } else { 1 };
	let mut total_guess = 0;
	for i in 0..n {
		let size = if many { r.log_range(200, 60_000) } else { r.log_range(2_000, 300_000) };
		let (f, bytes) = sized_content(&mut r, to, size);
		total_guess += bytes.len();
		if c.stdin.is_none() && r.chance(1, 3) {
			// Standard input at any position of the input list ('-' before, between or after
			// file operands). A single input may name its format; in a list -f would apply to
			// every input, so standard input is left to detection there.
			c.stdin = Some(bytes);
			let sr = r.chance(1, 2);
			c.stdin_plan = Some(plan_for(&mut r, 4096, sr));
			if !many {
				c.args.extend(fmt_flag(&mut r, 'f', f));
			} else {
				c.args.push("-".into());
			}
			continue;
		}
		let name = format!("in{i}.{}", f.name());
		c.files.push(FileSpec { name: name.clone(), kind: "file".into(), bytes, plan: Some(ReadPlan::default()) });
		c.args.push(name);
	}
	let mut ks = k_positions(total_guess);
	// Faults placed right at (and one byte around) the point where one input's output ends
	// and xt has just flushed: the consumer leaves exactly between two inputs.
	{
		let mut end = 0usize;
		let mut ends = vec![];
		for a in c.args.iter().filter(|a| *a == "-" || a.starts_with("in")) {
			let (bytes, f) = if a == "-" {
				(c.stdin.clone().unwrap_or_default(), None)
			} else {
				match c.files.iter().find(|x| x.name == *a) {
					Some(x) => (x.bytes.clone(), procsim::extension_format(a)),
					None => continue,
				}
			};
			let (v, out) = crate::exec::t0(&bytes, f, to);
			if !v.is_ok() {
				break;
			}
			end += out.len();
			ends.push(end);
		}
		if !many && c.stdin.is_some() && ends.is_empty() {
			// (a single input on stdin with -f: no file operand in the list)
		}
		ends.pop(); // the end of the last input is `total`, already present
		for e in ends {
			ks.extend([e.saturating_sub(1), e, e + 1]);
		}
		ks.sort_unstable();
		ks.dedup();
	}
	let k = ks[ki % ks.len()];
	let errno = *r.pick(&[EPIPE, EPIPE, EPIPE, ENOSPC, EIO]);
	// vary errno with the position index as well so that every k meets every errno over a group
	let errno = if ki / ks.len() % 2 == 1 { if errno == EPIPE { ENOSPC } else { EPIPE } } else { errno };
	c.wfail = Some((k, errno));
	if r.chance(1, 3) {
		c.wsched = gen::gen_sched(&mut r, 8192);
	}
	c.nommap = r.chance(1, 5);
	if idx % 25 == 24 {
		// Fidelity run: the real kernel object instead of the interposer.
		c.params.insert("fidelity".into(), json!(if r.chance(2, 3) { "pipe" } else { "devfull" }));
	}
	c.to_json()
}

/// Fidelity run of C16: a real closing pipe / a real full device, compared with the stubbed run.
fn fidelity16(ev: &mut Eval, c: &ProcCase, p: &procsim::Parsed, what: &str) {
	let ex = expect_run(c, p);
	if ex.lib_panic.is_some() || ex.exit != 0 {
		return;
	}
	let args = format!("{:?}", c.args);
	let mut real_case = c.clone();
	real_case.wfail = None;
	real_case.wsched = Sched::whole();
	match what {
		"pipe" => {
			// The consumer takes k bytes and leaves while more than a pipe capacity remains.
			if ex.maximal.len() < 80_000 {
				return;
			}
			let k = c.wfail.map_or(0, |w| w.0).min(ex.maximal.len() - 75_000);
			let o = procsim::run_real(&real_case, &procsim::Real::ClosingPipe(k));
			ev.execs += 1;
			ev.count("fidelity.pipe", 1);
			if !proc_invariants(ev, c, &o) {
				return;
			}
			if o.signal != Some(13) {
				ev.violate(format!("real/epipe/not-sigpipe/{}", o.status().replace(' ', "-")), format!("xt {args}: REAL pipe, reader closed after {k} of {} bytes: xt ended with {} instead of SIGPIPE; stderr {:?}", ex.maximal.len(), o.status(), show(&o.stderr)));
			}
			if !o.stderr.is_empty() {
				ev.violate("real/epipe/stderr-not-empty", format!("xt {args}: REAL pipe closed after {k} bytes; stderr holds {:?}", show(&o.stderr)));
			}
			if o.stdout != ex.maximal[..k] {
				ev.violate("real/accepted-bytes", format!("xt {args}: REAL pipe: the {k} bytes the reader took are not the first {k} expected bytes"));
			}
			// The stub must tell the same story.
			let mut stub = real_case.clone();
			stub.wfail = Some((k, EPIPE));
			let so = procsim::run(&stub);
			ev.execs += 1;
			if (so.signal == Some(13)) != (o.signal == Some(13)) || so.stderr.is_empty() != o.stderr.is_empty() {
				ev.violate("harness/fidelity-pipe-disagrees", format!("xt {args}: real closing pipe at {k}: {} / stderr {:?}; interposer EPIPE at {k}: {} / stderr {:?}", o.status(), show(&o.stderr), so.status(), show(&so.stderr)));
			}
		}
		_ => {
			let o = procsim::run_real(&real_case, &procsim::Real::DevFull);
			ev.execs += 1;
			ev.count("fidelity.devfull", 1);
			if !proc_invariants(ev, c, &o) || ex.maximal.is_empty() {
				return;
			}
			if o.code != Some(1) {
				ev.violate(format!("write-error/{}", o.status().replace(' ', "-")), format!("xt {args}: stdout is /dev/full ({} bytes of output) but xt ended with {}", ex.maximal.len(), o.status()));
			}
			if !text(&o.stderr).starts_with("xt error") {
				ev.violate("write-error/no-message", format!("xt {args}: stdout is /dev/full; stderr {:?} does not begin with 'xt error'", show(&o.stderr)));
			}
			let mut stub = real_case.clone();
			stub.wfail = Some((0, ENOSPC));
			let so = procsim::run(&stub);
			ev.execs += 1;
			if so.code != o.code || so.signal != o.signal {
				ev.violate("harness/fidelity-devfull-disagrees", format!("xt {args}: /dev/full: {}; interposer ENOSPC at 0: {}", o.status(), so.status()));
			}
		}
	}
	ev.nontrivial = true;
}

fn eval16(case: &J) -> Eval {
	let c = parse_case(case);
	let mut ev = Eval::default();
	let p = parse_args(&c.args);
	if let Some(what) = c.params.get("fidelity").and_then(J::as_str) {
		ev.key = key_of(case);
		ev.trace = hash_str(what);
		if p.class == Class::Run {
			fidelity16(&mut ev, &c, &p, what);
		}
		return ev;
	}
	let o = procsim::run(&c);
	procsim::write_plan_note(&mut ev, &c, &o);
	ev.key = key_of(case);
	ev.trace = trace_of(&o);
	if !proc_invariants(&mut ev, &c, &o) || p.class != Class::Run {
		return ev;
	}
	let ex = expect_run(&c, &p);
	if ex.lib_panic.is_some() || ex.exit != 0 {
		return ev;
	}
	let Some((k, errno)) = c.wfail else { return ev };
	let args = format!("{:?}", c.args);
	let fired = o.log.iter().any(|l| l.starts_with("W ") && l.split(' ').nth(2) == Some("-1") && l.split(' ').nth(3) == Some(&errno.to_string()));
	ev.count("k=0", u64::from(k == 0));
	ev.count(if k < 8192 { "k<8192" } else { "k>=8192" }, 1);
	ev.count("many_inputs", u64::from(p.inputs.len() >= 2));
	ev.count("stdin_input", u64::from(p.inputs.iter().any(|a| a == "-") || p.inputs.is_empty()));
	ev.count(
		match p.to {
			Fmt::Json => "target.json",
			Fmt::Yaml => "target.yaml",
			Fmt::Msgpack => "target.msgpack",
			Fmt::Toml => "target.toml",
		},
		1,
	);
	if !fired {
		// The whole output fitted before k: an ordinary successful run.
		if o.code != Some(0) || o.stdout != ex.maximal {
			ev.violate("unfired/differs", format!("xt {args}: the write fault at {k} was never reached, yet xt ended with {} and {} of {} bytes", o.status(), o.stdout.len(), ex.maximal.len()));
		}
		return ev;
	}
	ev.nontrivial = true;
	// Was the failing write issued by the per-input flush? (the failing W is the last fd-1 event and all complete inputs before were buffered)
	ev.count("fault_in_flush", u64::from(k > 0 && ex.maximal.len() - k < 8192));
	let want = &ex.maximal[..k.min(ex.maximal.len())];
	if o.stdout != want {
		ev.violate("accepted-bytes", format!("xt {args}: the consumer accepted {k} bytes before failing; they are {:?}..., the first {k} bytes of the expected output are {:?}...", show(&o.stdout), show(want)));
	}
	if errno == EPIPE {
		if o.signal != Some(13) {
			ev.violate(format!("epipe/not-sigpipe/{}", o.status().replace(' ', "-")), format!("xt {args}: fd 1 returned EPIPE after {k} bytes ({} bytes of output expected in total) but xt ended with {} instead of dying from SIGPIPE; stderr {:?}", ex.maximal.len(), o.status(), show(&o.stderr)));
		}
		if !o.stderr.is_empty() {
			ev.violate("epipe/stderr-not-empty", format!("xt {args}: consumer went away after {k} bytes; stderr should be empty but holds {:?}", show(&o.stderr)));
		}
	} else {
		if o.code != Some(1) {
			ev.violate(format!("write-error/{}", o.status().replace(' ', "-")), format!("xt {args}: fd 1 failed with errno {errno} after {k} bytes but xt ended with {}", o.status()));
		}
		if !text(&o.stderr).starts_with("xt error") {
			ev.violate("write-error/no-message", format!("xt {args}: fd 1 failed with errno {errno} after {k} bytes; stderr {:?} does not begin with 'xt error'", show(&o.stderr)));
		}
	}
	ev
}
