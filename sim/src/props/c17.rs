//! C17 - memory safety of the YAML parser binding and decoders.
//!
//! The same YAML-path scenarios run three times: in the ordinary build (with
//! a per-run leak oracle from the counting allocator and crash isolation),
//! under AddressSanitizer (second pass, separate build) and under Miri (third
//! pass, small inputs). Scenario = YAML input (explicit or detected) through
//! a producer with short reads, a persistent error at EVERY offset, an
//! over-reporting read (contract violation) of every excess class, or an
//! early drop of the parser/chunker after EVERY event (verif hook).

use std::cell::RefCell;
use std::rc::Rc;

use serde_json::{json, Value as J};

use super::common::*;
use crate::exec::{self, guarded, Opts, Verdict};
use crate::gen::{self, GenCfg};
use crate::prop::{Eval, PropDef, Tier};
use crate::rng::{hash_str, mix, Rng};
use crate::scenario::{Call, Fmt, Scenario, ALL_FMTS};
use crate::simio::{Log, RFault, Sched, SimReader, RKINDS};

pub static DEF: PropDef = PropDef {
	id: "C17",
	level: "exploration",
	runs,
	gen,
	eval,
	shrink: crate::shrink::lib_shrink,
	rule: "run = YAML input (valid block/flow streams incl. %YAML/%TAG directives, anchors/aliases, mutants, YAML token sequences, UTF-16/32 renderings incl. ill-formed units, long comments with multi-byte characters around the 16 KiB libyaml buffer edge) taken as YAML explicitly or by detection, slice or reader with drawn read sizes, plus one sweep family: producer error at EVERY offset (<= 160 positions, all for inputs <= 160 B), an over-reporting read (excess 1,2,3,7,4096,16384,2^62) at each of the first read calls, early drop of the parser after EVERY event and of the chunker after every document (verif hook). Three passes: ordinary build with leak oracle (live heap attributable to xt after the run must be 0 in two consecutive repetitions), AddressSanitizer build, Miri (inputs <= 512 B). Non-trivial: a fault/drop actually fired or the producer delivered the input in >= 2 reads. Distinct = distinct (bytes, source selection, schedule, sweep family).",
	real: LIB_REAL,
	stub: LIB_STUB,
	assumptions: &[
		"Miri (Stacked Borrows, uninitialised reads, leaks) and AddressSanitizer judge the executions they are given; the simulator's job is to give them the error paths, short reads, contract violations and early drops the test suite never takes",
		"a clean panic is an allowed outcome only for the over-reporting producer (statement)",
	],
	expected_probes: &["sweep.rfail", "sweep.over", "sweep.drop", "sweep.none", "r.fail.fired", "r.overreport.fired", "drop.events", "drop.docs", "directives", "family.big_comment", "family.utf16_32", "leak_checked", "clean_panic_on_overreport"],
	needs_bins: false,
	watchdog_s: 120,
};

fn runs(t: Tier) -> u64 {
	match t {
		Tier::Quick => 12_000,
		Tier::Thorough => 1_500_000,
	}
}

pub fn asan_runs(t: Tier) -> u64 {
	match t {
		Tier::Quick => 3_000,
		Tier::Thorough => 300_000,
	}
}

pub fn miri_runs(t: Tier) -> u64 {
	match t {
		Tier::Quick => 48,
		Tier::Thorough => 1_600,
	}
}

fn yaml_input(r: &mut Rng, small: bool) -> (Vec<u8>, &'static str) {
	let mut cfg = GenCfg::common();
	cfg.max_depth = r.range(1, 3);
	cfg.max_len = r.range(1, 4);
	cfg.str_max = 6;
	match r.below(12) {
		0..=2 => {
			let nd = r.range(1, 3);
			let (s, _) = gen::gen_stream(r, Fmt::Yaml, nd, &cfg, true);
			(s.bytes, "valid")
		}
		3 => {
			let body = gen::to_yaml_flow(&gen::gen_doc(r, &cfg));
			let d = *r.pick(&["%YAML 1.2\n---\n", "%TAG !e! tag:example.com,2000:\n---\n", "%YAML 1.1\n%TAG ! tag:x,1:\n--- ", "%TAG !! tag:yaml.org,2002:\n---\n"]);
			let tail = if r.chance(1, 2) { "\n...\n%YAML 1.2\n---\n- x\n" } else { "\n" };
			(format!("{d}{body}{tail}").into_bytes(), "directives")
		}
		4 => ((*r.pick(&["a: &x [1, 2]\nb: *x\n", "*y", "&a", "- &a\n  k: v\n- *a\n- !!str 1\n", "? [k]\n: v\n", "--- |\n  lit\n  eral\n--- >\n  fol\n  ded\n...\n", "a:\n  - b\n  -\n    c: d\n", "{a: [b, {c: d}], e: 'f''g', h: \"i\\nj\"}\n"])).as_bytes().to_vec(), "valid")
		,
		5 | 6 => {
			let nd = r.range(1, 2);
			let (s, _) = gen::gen_stream(r, Fmt::Yaml, nd, &cfg, true);
			let mut b = s.bytes;
			gen::mutate(r, &mut b, b"&*!|>%@`");
			(b, "mutant")
		}
		7 => {
			let n = r.range(1, 10);
			(gen::random_tokens(r, &gen::alphabet(Fmt::Yaml), n), "tokens")
		}
		8 if r.chance(1, 2) => {
			// A soup of UTF-16 code units (or UTF-32 values): every adjacency of ordinary
			// characters, leading and trailing surrogates, values beyond U+10FFFF - also in
			// the middle of input that is already buffered.
			let wide = r.chance(1, 3);
			let n = r.range(2, 40);
			let mut units: Vec<u32> = vec![];
			for _ in 0..n {
				units.push(match r.below(10) {
					0..=3 => u32::from(*r.pick(b"a: -\n[]x")),
					4 => *r.pick(&[0xe9u32, 0x65e5, 0x7ff, 0xfffd]),
					5 | 6 => 0xd800 + r.below(0x400) as u32,
					7 | 8 => 0xdc00 + r.below(0x400) as u32,
					_ => {
						if wide {
							*r.pick(&[0x1f600u32, 0x10ffff, 0x110000, 0xffff_ffff, 0xd800])
						} else {
							0xfeff
						}
					}
				});
			}
			let big_endian = r.chance(1, 2);
			let mut b: Vec<u8> = vec![];
			if r.chance(2, 3) {
				units.insert(0, 0xfeff);
			} else {
				units.insert(0, u32::from(b'a'));
			}
			for u in &units {
				if wide {
					b.extend_from_slice(&if big_endian { u.to_be_bytes() } else { u.to_le_bytes() });
				} else {
					let v = *u as u16;
					b.extend_from_slice(&if big_endian { v.to_be_bytes() } else { v.to_le_bytes() });
				}
			}
			if r.chance(1, 6) {
				b.pop();
			}
			(b, "utf16_32")
		}
		8 | 9 => {
			let (s, _) = gen::gen_stream(r, Fmt::Yaml, 1, &cfg, true);
			let text = String::from_utf8_lossy(&s.bytes).into_owned();
			let mut b = super::c02::encode_utf(&text, r.usize_below(4), r.chance(1, 2));
			if r.chance(1, 2) {
				gen::mutate(r, &mut b, &[0xd8, 0x00, 0xdc, 0x00]);
			}
			(b, "utf16_32")
		}
		_ if !small => {
			// A comment long enough to cross libyaml's 16 KiB raw buffer, full of multi-byte characters.
			let unit = *r.pick(&["é", "日", "\u{1F600}", "aé", "x日y"]);
			let target = 16384 * r.range(1, 2) + r.range(0, 8) - 4;
			let mut s = String::from("# ");
			while s.len() < target {
				s.push_str(unit);
			}
			s.push_str("\nk: v\n");
			(s.into_bytes(), "big_comment")
		}
		_ => (b"# \xc3\xa9\xe6\x97\xa5\nk: [1, 2]\n".to_vec(), "valid"),
	}
}

fn gen(seed: u64, idx: u64, _t: Tier) -> J {
	let mut r = Rng::derive(seed, "C17", idx);
	// Every 4th index stays small enough for Miri.
	let small = idx % 4 == 0;
	let (mut bytes, family) = yaml_input(&mut r, small);
	if small && bytes.len() > 512 {
		bytes.truncate(512);
	}
	let reader = r.chance(3, 4);
	let sched = if reader {
		if family == "big_comment" {
			// cut inside a multi-byte character near the buffer edge, then fill
			Sched { list: vec![r.range(16370, 16390) as u32, 16384, 3, 16384], cycle: true }
		} else {
			gen::gen_sched(&mut r, bytes.len())
		}
	} else {
		Sched::whole()
	};
	let from = if r.chance(2, 3) { Some(Fmt::Yaml) } else { None };
	let mut c = Call::reader(bytes, from, sched);
	c.reader = reader;
	let sweep = if !reader { "none" } else { *r.pick(&["rfail", "rfail", "over", "drop", "drop", "none"]) };
	let mut sc = Scenario::new(*r.pick(&ALL_FMTS), vec![c]);
	set_param(&mut sc, "sweep", json!(sweep));
	set_param(&mut sc, "family", json!(family));
	set_param(&mut sc, "rkind", json!(RKINDS[r.usize_below(RKINDS.len())].0));
	sc.to_json()
}

fn positions(n: usize, max: usize) -> Vec<usize> {
	if n + 1 <= max {
		return (0..=n).collect();
	}
	let mut v: Vec<usize> = (0..max / 2).collect();
	let stride = (n / (max / 2)).max(1);
	let mut k = max / 2;
	while k < n {
		v.push(k);
		k += stride;
	}
	v.push(n);
	v
}

/// Runs the scenario; returns (verdict code, leaked bytes).
fn run_checked(ev: &mut Eval, sc: &Scenario, what: &str, leak_check: bool) {
	let o = exec::run_with(sc, Opts { drop_out: true, lean: true, measure: true, ..Default::default() });
	global_invariants(ev, sc, &o, what);
	add_io_counters(ev, &o);
	if leak_check && !cfg!(miri) && o.mem.live_end > 0 {
		// One-time lazy initialisations only show in a first run: repeat twice.
		let o2 = exec::run_with(sc, Opts { drop_out: true, lean: true, measure: true, ..Default::default() });
		let o3 = exec::run_with(sc, Opts { drop_out: true, lean: true, measure: true, ..Default::default() });
		ev.execs += 2;
		if o2.mem.live_end > 0 && o3.mem.live_end > 0 {
			ev.violate(format!("leak/{}", crate::scenario::from_name(sc.calls[0].from)), format!("{what}: {} bytes allocated by xt are still live after the call returned (again {} and {} bytes in two repetitions)", o.mem.live_end, o2.mem.live_end, o3.mem.live_end));
		}
	}
	ev.count("leak_checked", u64::from(leak_check));
}

fn eval(case: &J) -> Eval {
	let sc = parse(case);
	let mut ev = Eval::default();
	let sweep = sc.param_s("sweep").unwrap_or("none").to_owned();
	let family = sc.param_s("family").unwrap_or("");
	ev.count("directives", u64::from(family == "directives"));
	ev.count("family.big_comment", u64::from(family == "big_comment"));
	ev.count("family.utf16_32", u64::from(family == "utf16_32"));
	let pinned = sc.param_i("k").map(|k| k as usize);
	let light = cfg!(miri);
	let n = sc.calls[0].bytes.len();
	// Baseline (no fault).
	run_checked(&mut ev, &sc, "fault-free run", true);
	let mut fired = false;
	match sweep.as_str() {
		"rfail" => {
			ev.count("sweep.rfail", 1);
			let kind = sc.param_s("rkind").unwrap_or("Other").to_owned();
			let ks = pinned.map_or_else(|| positions(n, if light { 12 } else { 160 }), |k| vec![k]);
			for k in ks {
				let mut s = sc.clone();
				s.calls[0].rfault = Some(RFault { at: k, kind: kind.clone() });
				run_checked(&mut ev, &s, &format!("producer error ({kind}) at offset {k}"), true);
				fired = true;
			}
		}
		"over" => {
			ev.count("sweep.over", 1);
			let excesses: &[usize] = if light { &[1, 16384] } else { &[1, 2, 3, 7, 4096, 16384, 1 << 62] };
			let calls: Vec<u32> = match pinned {
				Some(k) => vec![k as u32],
				None => (0..if light { 2 } else { 4 }).collect(),
			};
			for &e in excesses {
				for &c in &calls {
					let mut s = sc.clone();
					s.calls[0].over = Some((c, e));
					run_checked(&mut ev, &s, &format!("read call {c} over-reports by {e}"), false);
					fired = true;
				}
			}
		}
		"drop" => {
			ev.count("sweep.drop", 1);
			// Early drop through the hook: the re-encoded stream behind a short-read producer.
			let max_events = if light { 6 } else { 64 };
			let es: Vec<usize> = pinned.map_or_else(|| (0..=max_events).collect(), |k| vec![k]);
			for e in es {
				for docs_mode in [false, true] {
					let log = Rc::new(RefCell::new(Log { counting_only: true, ..Log::default() }));
					let rd = SimReader::new(0, Rc::new(sc.calls[0].bytes.clone()), sc.calls[0].sched.clone(), None, vec![], None, log);
					crate::alloc::start();
					let v = guarded(|| {
						let enc = xt::verif::yaml_reencode(std::io::BufReader::new(rd)).map_err(|x| x.to_string())?;
						if docs_mode {
							let _ = xt::verif::yaml_chunks(enc, e.min(4));
						} else {
							let _ = xt::verif::yaml_events(enc, e);
						}
						Ok(())
					});
					let m = crate::alloc::stop();
					ev.execs += 1;
					ev.count(if docs_mode { "drop.docs" } else { "drop.events" }, 1);
					if let Verdict::Panic(p) = v {
						ev.violate("drop/panic", format!("parser dropped after {e} {}: panic: {p}", if docs_mode { "documents" } else { "events" }));
					}
					if !cfg!(miri) && m.live_end > 0 {
						// repeat to rule out one-time initialisation
						let mut again = 0;
						for _ in 0..2 {
							let log = Rc::new(RefCell::new(Log { counting_only: true, ..Log::default() }));
							let rd = SimReader::new(0, Rc::new(sc.calls[0].bytes.clone()), sc.calls[0].sched.clone(), None, vec![], None, log);
							crate::alloc::start();
							let _ = guarded(|| {
								let enc = xt::verif::yaml_reencode(std::io::BufReader::new(rd)).map_err(|x| x.to_string())?;
								if docs_mode {
									let _ = xt::verif::yaml_chunks(enc, e.min(4));
								} else {
									let _ = xt::verif::yaml_events(enc, e);
								}
								Ok(())
							});
							if crate::alloc::stop().live_end > 0 {
								again += 1;
							}
						}
						if again == 2 {
							ev.violate(format!("leak/drop-{}", if docs_mode { "docs" } else { "events" }), format!("parser dropped after {e} {}: {} bytes allocated by xt/libyaml are still live", if docs_mode { "documents" } else { "events" }, m.live_end));
						}
					}
					fired = true;
				}
			}
		}
		_ => ev.count("sweep.none", 1),
	}
	ev.nontrivial = fired || sc.calls[0].reader;
	ev.key = key_of(&sc, mix(hash_str(&sweep), sched_hash(&sc.calls[0].sched)));
	ev.trace = mix(hash_str(&sweep), hash_str(family));
	ev
}
