//! C07 - YAML in UTF-16/UTF-32 translates exactly like the same text in UTF-8.
//!
//! "enc" runs drive the re-encoder itself (verif hook) with arbitrary
//! code-unit sequences: producer with short reads behind a BufReader of
//! capacity c, consumer reading with per-call buffer sizes down to 1 byte, so
//! that `remainder`/`buf` carry state across calls; checked against a
//! reference model built on char::decode_utf16 / char::from_u32.
//! "xt" runs compare whole translations of encode_E(text) and text.

use std::cell::RefCell;
use std::io::{BufReader, Read};
use std::rc::Rc;

use serde_json::{json, Value as J};

use super::c02::encode_utf;
use super::common::*;
use crate::exec::{self, guarded, Verdict};
use crate::gen::{self, GenCfg};
use crate::prop::{Eval, PropDef, Tier};
use crate::rng::{fnv, hash_str, mix, Rng};
use crate::scenario::{sched_from_json, sched_to_json, Call, Fmt, Scenario};
use crate::simio::{Log, Sched, SimReader};

pub static DEF: PropDef = PropDef {
	id: "C07",
	level: "exploration",
	runs,
	gen,
	eval,
	shrink,
	rule: "enc runs: a code-unit sequence in UTF-16BE/LE or UTF-32BE/LE, with/without BOM, encoding named or detected, read through BufReader(capacity c in 1..16 or 8192) over a short-read producer, consumed with cyclic read-buffer sizes (1..9 bytes and random). Sequences: consecutive code-point blocks of 4096 scalars (quick: all blocks touching the BMP and surrogate/plane edges + sampled astral blocks; thorough: every block, i.e. all 1,112,064 scalars, x 4 encodings x BOM/no BOM x >= 5 schedule pairs), every ill-formed class (lone lead, lone trail, lead+non-trail, reversed pair, truncated unit, UTF-32 surrogate, > 10FFFF) at random positions, random unit soup. xt runs: generated YAML texts (incl. ASCII-only) encoded in each encoding vs the UTF-8 text, slice and reader, explicit and detected, all targets; plus one ill-formed unit planted. Non-trivial: a multi-byte character's UTF-8 form was split across two consumer reads, or the producer delivered a code unit in two reads. Distinct = distinct case content.",
	real: LIB_REAL,
	stub: LIB_STUB,
	assumptions: &["reference model: char::decode_utf16 / char::from_u32, one leading U+FEFF stripped", "in detected-encoding runs the stream starts with a BOM or an ASCII character (the premise of YAML 1.2 section 5.2 detection)"],
	expected_probes: &["enc.wellformed", "enc.illformed", "enc.char_split_across_reads", "enc.unit_split_across_producer_reads", "enc.detected", "enc.named", "enc.block", "enc.soup", "xt.equal_checked", "xt.ascii_only", "xt.illformed", "enc.utf16be", "enc.utf16le", "enc.utf32be", "enc.utf32le", "enc.bom"],
	needs_bins: false,
	watchdog_s: 60,
};

const ENCS: [&str; 4] = ["utf16be", "utf16le", "utf32be", "utf32le"];
const BLOCK: u32 = 4096;
const N_BLOCKS: u32 = 0x11_0000 / BLOCK; // 272

fn quick_blocks() -> Vec<u32> {
	// Every block of the BMP (incl. the surrogate range edges) + plane edges + a few astral ones.
	let mut v: Vec<u32> = (0..16).collect();
	v.extend([16, 17, 31, 32, 47, 48, 127, 128, 239, 240, 255, 256, 271]);
	v
}

fn runs(t: Tier) -> u64 {
	match t {
		// blocks x 4 encodings x 2 BOM x 2 schedule pairs, then sampled runs
		Tier::Quick => quick_blocks().len() as u64 * 16 + 30_000,
		Tier::Thorough => u64::from(N_BLOCKS) * 8 * 5 + 1_500_000,
	}
}

fn small_sizes(r: &mut Rng) -> Vec<u32> {
	match r.below(4) {
		0 => vec![1],
		1 => vec![r.range(1, 9) as u32],
		2 => (0..r.range(2, 6)).map(|_| r.range(1, 9) as u32).collect(),
		_ => (0..r.range(2, 6)).map(|_| r.log_range(1, 5000) as u32).collect(),
	}
}

fn gen(seed: u64, idx: u64, t: Tier) -> J {
	let mut r = Rng::derive(seed, "C07", idx);
	let (blocks, pairs): (Vec<u32>, u64) = match t {
		Tier::Quick => (quick_blocks(), 2),
		Tier::Thorough => ((0..N_BLOCKS).collect(), 5),
	};
	let sweep = blocks.len() as u64 * 8 * pairs;
	if idx < sweep {
		let b = blocks[(idx / (8 * pairs)) as usize];
		let k = idx % (8 * pairs);
		let (enc, bom) = (ENCS[(k % 4) as usize], (k / 4) % 2 == 1);
		let cap = *r.pick(&[1usize, 2, 3, 4, 5, 7, 8, 16, 8192]);
		return json!({"kind": "enc", "mode": "block", "lo": b * BLOCK, "hi": (b + 1) * BLOCK, "enc": enc, "bom": bom, "named": r.chance(1, 2), "cap": cap,
			"psched": sched_to_json(&gen::gen_sched(&mut r, 16384)), "rsizes": small_sizes(&mut r)});
	}
	match r.below(10) {
		0..=3 => {
			// unit soup / ill-formed classes
			let enc = *r.pick(&ENCS);
			let wide = enc.starts_with("utf32");
			let n = r.range(0, 24);
			let mut units: Vec<u32> = (0..n)
				.map(|_| match r.below(8) {
					0 => 0xD800 + r.below(0x400) as u32,
					1 => 0xDC00 + r.below(0x400) as u32,
					2 => *r.pick(&[0xD7FFu32, 0xD800, 0xDBFF, 0xDC00, 0xDFFF, 0xE000, 0xFFFF, 0xFFFE, 0xFEFF, 0]),
					3 if wide => *r.pick(&[0x10000u32, 0x10FFFF, 0x110000, 0xFFFF_FFFF, 0x7FFF_FFFF, 0x00D8_0000]),
					4 if wide => r.next() as u32,
					_ => 0x20 + r.below(0x60) as u32,
				})
				.collect();
			// make well-formed surrogate pairs likely
			if !wide {
				for i in 0..units.len().saturating_sub(1) {
					if (0xD800..0xDC00).contains(&units[i]) && r.chance(1, 2) {
						units[i + 1] = 0xDC00 + r.below(0x400) as u32;
					}
				}
			}
			let trunc = if r.chance(1, 5) { r.range(1, if wide { 3 } else { 1 }) } else { 0 };
			json!({"kind": "enc", "mode": "soup", "units": units, "trunc": trunc, "enc": enc, "bom": r.chance(1, 3), "named": true, "cap": *r.pick(&[1usize, 2, 3, 4, 5, 8, 8192]),
				"psched": sched_to_json(&gen::gen_sched(&mut r, 128)), "rsizes": small_sizes(&mut r)})
		}
		_ => {
			// whole translations
			let mut cfg = GenCfg::common();
			let ascii = r.chance(1, 3);
			cfg.unicode = !ascii;
			cfg.max_depth = 3;
			let nd = r.range(1, 3);
			let (s, _) = gen::gen_stream(&mut r, Fmt::Yaml, nd, &cfg, true);
			let text = String::from_utf8_lossy(&s.bytes).into_owned();
			let text: String = if ascii { text.chars().filter(char::is_ascii).collect() } else { text };
			// sometimes a text larger than libyaml's 16 KiB read with multi-byte characters at the buffer edges
			let text = if !ascii && r.chance(1, 8) { String::from_utf8_lossy(&gen::boundary_text(&mut r, Fmt::Yaml)).into_owned() } else { text };
			let enc = r.usize_below(4);
			let reader = r.chance(1, 2);
			let mut c = Call::reader(text.clone().into_bytes(), if r.chance(1, 2) { Some(Fmt::Yaml) } else { None }, if reader { gen::gen_sched(&mut r, text.len() * 3) } else { Sched::whole() });
			c.reader = reader;
			let mut sc = Scenario::new(*r.pick(&crate::scenario::ALL_FMTS), vec![c]);
			set_param(&mut sc, "enc", json!(ENCS[enc]));
			set_param(&mut sc, "bom", json!(r.chance(1, 2)));
			set_param(&mut sc, "ascii", json!(ascii));
			if r.chance(1, 5) {
				// plant one ill-formed unit at a random unit index
				set_param(&mut sc, "ill_at", json!(r.range(1, text.chars().count().max(1))));
				set_param(&mut sc, "ill", json!(*r.pick(&["lone_lead", "lone_trail", "reversed", "truncated", "too_big"])));
			}
			let mut j = sc.to_json();
			j["kind"] = json!("xt");
			j
		}
	}
}

fn enc_code(name: &str) -> usize {
	ENCS.iter().position(|e| *e == name).unwrap_or(0)
}

fn units_to_bytes(units: &[u32], enc: usize) -> Vec<u8> {
	let mut out = vec![];
	for &u in units {
		match enc {
			0 => out.extend_from_slice(&(u as u16).to_be_bytes()),
			1 => out.extend_from_slice(&(u as u16).to_le_bytes()),
			2 => out.extend_from_slice(&u.to_be_bytes()),
			_ => out.extend_from_slice(&u.to_le_bytes()),
		}
	}
	out
}

/// Reference model: (expected UTF-8 of the valid prefix, whole input well-formed?).
fn model(units: &[u32], wide: bool, truncated: bool) -> (Vec<u8>, bool) {
	let mut s = String::new();
	let mut ok = true;
	if wide {
		for &u in units {
			match char::from_u32(u) {
				Some(c) => s.push(c),
				None => {
					ok = false;
					break;
				}
			}
		}
	} else {
		for r in char::decode_utf16(units.iter().map(|u| *u as u16)) {
			match r {
				Ok(c) => s.push(c),
				Err(_) => {
					ok = false;
					break;
				}
			}
		}
	}
	if truncated {
		ok = false;
	}
	let s = s.strip_prefix('\u{feff}').map(str::to_owned).unwrap_or(s);
	(s.into_bytes(), ok)
}

fn eval_enc(case: &J) -> Eval {
	let mut ev = Eval::default();
	let enc_name = case["enc"].as_str().unwrap_or("utf16be").to_owned();
	let enc = enc_code(&enc_name);
	let wide = enc >= 2;
	let bom = case["bom"].as_bool().unwrap_or(false);
	let named = case["named"].as_bool().unwrap_or(true);
	let mut units: Vec<u32> = vec![];
	if bom {
		units.push(0xFEFF);
	}
	let block = case["mode"].as_str() == Some("block");
	if block {
		ev.count("enc.block", 1);
		// Detected-encoding runs must start with BOM or ASCII: prefix "a\n".
		units.extend([0x61, 0x0A]);
		let (lo, hi) = (case["lo"].as_u64().unwrap_or(0) as u32, case["hi"].as_u64().unwrap_or(0) as u32);
		for cp in lo..hi {
			if let Some(c) = char::from_u32(cp) {
				if wide {
					units.push(cp);
				} else {
					let mut b = [0u16; 2];
					units.extend(c.encode_utf16(&mut b).iter().map(|u| u32::from(*u)));
				}
			}
		}
	} else {
		ev.count("enc.soup", 1);
		units.extend(case["units"].as_array().cloned().unwrap_or_default().iter().filter_map(|u| u.as_u64().map(|v| v as u32)));
		if !wide {
			for u in &mut units {
				*u &= 0xFFFF;
			}
		}
	}
	let mut bytes = units_to_bytes(&units, enc);
	let trunc = case["trunc"].as_u64().unwrap_or(0) as usize;
	let truncated = trunc > 0 && !bytes.is_empty();
	if truncated {
		// Append a partial code unit.
		let extra = units_to_bytes(&[0x41], enc);
		bytes.extend_from_slice(&extra[..trunc.min(extra.len() - 1)]);
	}
	let (expect, wellformed) = model(&units, wide, truncated);
	ev.count(if wellformed { "enc.wellformed" } else { "enc.illformed" }, 1);
	ev.count(if named { "enc.named" } else { "enc.detected" }, 1);
	ev.count(["enc.utf16be", "enc.utf16le", "enc.utf32be", "enc.utf32le"][enc], 1);
	ev.count("enc.bom", u64::from(bom));
	let cap = case["cap"].as_u64().unwrap_or(8192).max(1) as usize;
	let psched = sched_from_json(&case["psched"]).unwrap_or_default();
	let rsizes: Vec<usize> = case["rsizes"].as_array().map(|a| a.iter().filter_map(|x| x.as_u64().map(|v| (v as usize).max(1))).collect()).unwrap_or_else(|| vec![1]);
	let rsizes = if rsizes.is_empty() { vec![1] } else { rsizes };
	let log = Rc::new(RefCell::new(Log { counting_only: true, ..Log::default() }));
	let rd = SimReader::new(0, Rc::new(bytes.clone()), psched, None, vec![], None, log);
	let st = rd.stats.clone();
	let unit_size = if wide { 4 } else { 2 };
	let mut got: Vec<u8> = vec![];
	let mut err: Option<String> = None;
	let mut over: Option<(usize, usize)> = None;
	let mut boundaries: Vec<usize> = vec![];
	let v = guarded(|| {
		let br = BufReader::with_capacity(cap, rd);
		let mut r: Box<dyn Read> = if named { xt::verif::yaml_reencode_from(br, &enc_name) } else { xt::verif::yaml_reencode(br).map_err(|e| format!("from_reader: {e}"))? };
		let mut i = 0usize;
		let mut zero_reads = 0;
		loop {
			let n = rsizes[i % rsizes.len()];
			i += 1;
			let mut buf = vec![0xAAu8; n];
			match r.read(&mut buf) {
				Ok(k) if k > n => {
					over = Some((n, k));
					break;
				}
				Ok(0) => {
					zero_reads += 1;
					if zero_reads >= 2 {
						break;
					}
				}
				Ok(k) => {
					got.extend_from_slice(&buf[..k]);
					boundaries.push(got.len());
				}
				Err(e) => {
					err = Some(e.to_string());
					break;
				}
			}
			if got.len() > expect.len() + 64 || i > 40 * (bytes.len() + 16) {
				break;
			}
		}
		Ok(())
	});
	ev.execs = 1;
	ev.events = st.borrow().reads + boundaries.len() as u64;
	let tag = format!("{enc_name}/{}", if named { "named" } else { "detected" });
	match &v {
		Verdict::Panic(p) => ev.violate(format!("enc/panic/{tag}"), format!("re-encoder panicked: {p}")),
		Verdict::Err(e) => {
			if wellformed {
				ev.violate(format!("enc/error-on-wellformed/{tag}"), format!("construction failed on well-formed input: {e}"));
			}
		}
		Verdict::Ok => {}
	}
	if let Some((n, k)) = over {
		ev.violate(format!("enc/overlong-read/{tag}"), format!("read into a {n}-byte buffer returned {k}"));
	}
	if v.is_ok() {
		if wellformed {
			if let Some(e) = &err {
				ev.violate(format!("enc/error-on-wellformed/{tag}"), format!("well-formed {enc_name} input ({} units) was rejected: {e}", units.len()));
			} else if got != expect {
				let d = first_diff(&got, &expect);
				ev.violate(format!("enc/wrong-bytes/{tag}"), format!("re-encoded UTF-8 differs from the reference model at byte {d}: got {:?}, expected {:?} (BufReader capacity {cap}, read sizes {rsizes:?})", show(&got[d.saturating_sub(4).min(got.len())..]), show(&expect[d.saturating_sub(4).min(expect.len())..])));
			}
		} else {
			if err.is_none() {
				ev.violate(format!("enc/illformed-accepted/{tag}"), format!("ill-formed {enc_name} input was re-encoded without an error: units {:x?}{} gave {:?}", &units[..units.len().min(24)], if truncated { " + partial unit" } else { "" }, show(&got)));
			}
			if !is_prefix(&got, &expect) {
				ev.violate(format!("enc/fabricated/{tag}"), format!("bytes delivered before the error are not a prefix of the valid part: got {:?}, valid prefix {:?}", show(&got), show(&expect)));
			}
		}
	}
	// Non-triviality probes.
	let text = String::from_utf8_lossy(&expect);
	let split = boundaries.iter().any(|&b| b < expect.len() && got.len() >= b && !text.is_char_boundary(b.min(text.len())));
	ev.count("enc.char_split_across_reads", u64::from(split));
	let unit_split = st.borrow().data_reads > 1 && {
		// some producer read ended inside a unit
		cap < unit_size || st.borrow().data_reads as usize > bytes.len() / unit_size / 2
	};
	ev.count("enc.unit_split_across_producer_reads", u64::from(unit_split));
	ev.nontrivial = split || unit_split;
	ev.key = fnv(case.to_string().as_bytes());
	ev.trace = mix(hash_str(&tag), mix(u64::from(wellformed), mix(u64::from(split), cap as u64)));
	ev
}

fn eval_xt(case: &J) -> Eval {
	let sc = parse(case);
	let mut ev = Eval::default();
	let enc = enc_code(sc.param_s("enc").unwrap_or("utf16be"));
	let bom = sc.params.get("bom").and_then(J::as_bool).unwrap_or(false);
	let text = String::from_utf8_lossy(&sc.calls[0].bytes).into_owned();
	if sc.calls[0].from.is_none() && !matches!(xt::verif::detect_slice(&sc.calls[0].bytes), Ok(Some(xt::Format::Yaml))) {
		// Under detection the comparison is only meaningful when the UTF-8 text
		// itself is recognised as YAML (flow-style YAML is often valid JSON).
		ev.count("xt.skipped_utf8_twin_not_detected_as_yaml", 1);
		return ev;
	}
	let base = exec::run(&sc);
	global_invariants(&mut ev, &sc, &base, "UTF-8 twin");
	add_io_counters(&mut ev, &base);
	let mut s2 = sc.clone();
	let mut encoded = encode_utf(&text, enc, bom);
	let ill = sc.param_s("ill").map(str::to_owned);
	if let Some(kind) = &ill {
		let unit = if enc < 2 { 2 } else { 4 };
		// Insert at a character boundary (never between the halves of a surrogate pair).
		let nchars = sc.param_i("ill_at").unwrap_or(1) as usize;
		let units_before: usize = usize::from(bom) + text.chars().take(nchars).map(|c| if enc < 2 { c.len_utf16() } else { 1 }).sum::<usize>();
		let at = (units_before * unit).min(encoded.len() / unit * unit);
		let bad: Vec<u32> = match kind.as_str() {
			"lone_lead" => vec![0xD800],
			"lone_trail" => vec![0xDC00],
			"reversed" => vec![0xDC00, 0xD800],
			"too_big" if enc >= 2 => vec![0x11_0000],
			"too_big" => vec![0xDBFF],
			_ => vec![],
		};
		let mut ins = units_to_bytes(&bad, enc);
		if kind == "truncated" {
			encoded.truncate(encoded.len().saturating_sub(1).max(1));
			ins.clear();
		}
		let at = at.min(encoded.len() / unit * unit);
		encoded.splice(at..at, ins);
	}
	s2.calls[0].bytes = encoded;
	let o = exec::run(&s2);
	global_invariants(&mut ev, &s2, &o, "encoded run");
	add_io_counters(&mut ev, &o);
	let tag = format!("{}/{}/{}->{}", ENCS[enc], if sc.calls[0].reader { "reader" } else { "slice" }, crate::scenario::from_name(sc.calls[0].from), sc.to.name());
	let (v1, v2) = (base.verdict(0), o.verdict(0));
	if v1.code() == 2 || v2.code() == 2 {
		return ev;
	}
	if ill.is_some() {
		ev.count("xt.illformed", 1);
		if v2.is_ok() {
			ev.violate(format!("xt/illformed-accepted/{tag}"), format!("YAML with a planted {} unit translated successfully: output {:?}", ill.unwrap_or_default(), show(&o.out)));
		}
	} else {
		ev.count("xt.equal_checked", 1);
		ev.count("xt.ascii_only", u64::from(sc.params.get("ascii").and_then(J::as_bool).unwrap_or(false)));
		if v1.kind() != v2.kind() {
			ev.violate(format!("xt/verdict/{tag}/{}-vs-{}", v1.kind(), v2.kind()), format!("UTF-8 text: {} ({:?}); same text in {}{}: {} ({:?}); text {:?}", v1.kind(), v1.text(), ENCS[enc], if bom { "+BOM" } else { "" }, v2.kind(), v2.text(), show(text.as_bytes())));
		} else if v1.is_ok() && base.out != o.out {
			ev.violate(format!("xt/bytes/{tag}"), format!("output differs from the UTF-8 run at byte {}: {:?} vs {:?}", first_diff(&o.out, &base.out), show(&o.out), show(&base.out)));
		}
	}
	ev.nontrivial = o.calls[0].data_reads >= 2 || !sc.calls[0].reader;
	ev.key = key_of(&s2, sched_hash(&sc.calls[0].sched));
	ev.trace = mix(o.trace_hash(), hash_str(&tag));
	ev
}

fn eval(case: &J) -> Eval {
	if case["kind"].as_str() == Some("enc") {
		eval_enc(case)
	} else {
		eval_xt(case)
	}
}

fn shrink(case: &J) -> Vec<J> {
	let mut out = vec![];
	if case["kind"].as_str() == Some("enc") {
		if case["mode"].as_str() == Some("block") {
			let (lo, hi) = (case["lo"].as_u64().unwrap_or(0), case["hi"].as_u64().unwrap_or(0));
			if hi > lo + 1 {
				let mid = (lo + hi) / 2;
				for (a, b) in [(lo, mid), (mid, hi)] {
					let mut c = case.clone();
					c["lo"] = json!(a);
					c["hi"] = json!(b);
					out.push(c);
				}
			}
		} else {
			let units = case["units"].as_array().cloned().unwrap_or_default();
			for i in 0..units.len() {
				let mut c = case.clone();
				let mut u = units.clone();
				u.remove(i);
				c["units"] = J::Array(u);
				out.push(c);
			}
		}
		for (k, v) in [("cap", json!(8192)), ("cap", json!(1)), ("rsizes", json!([1])), ("rsizes", json!([4096])), ("psched", sched_to_json(&Sched::whole())), ("bom", json!(false)), ("named", json!(true)), ("trunc", json!(0))] {
			if case[k] != v {
				let mut c = case.clone();
				c[k] = v;
				out.push(c);
			}
		}
		return out;
	}
	crate::shrink::lib_shrink(case)
		.into_iter()
		.map(|mut j| {
			j["kind"] = json!("xt");
			j
		})
		.collect()
}
