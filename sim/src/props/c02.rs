//! C02 - the result is independent of input source and read schedule.
//!
//! One run = one (bytes, source selection, target) executed four times: as a
//! slice and through three producers with different read schedules (the
//! drawn one, single bytes, never short). Metamorphic oracle: same verdict;
//! on success byte-identical output; on failure pairwise prefix-comparable
//! partial outputs.

use serde_json::{json, Value as J};

use super::common::*;
use crate::exec;
use crate::gen::{self, GenCfg};
use crate::prop::{Eval, PropDef, Tier};
use crate::rng::{mix, Rng};
use crate::scenario::{from_name, Call, Fmt, Scenario, ALL_FMTS};
use crate::simio::Sched;

pub static DEF: PropDef = PropDef {
	id: "C02",
	level: "exploration",
	runs,
	gen,
	eval,
	shrink: crate::shrink::lib_shrink,
	rule: "run = (bytes, source selection in {each explicit format, detection}, target) executed as a slice and through 3 simulated producers (drawn schedule incl. cuts inside tokens, 1-byte reads, never-short). The first run indices enumerate EVERY token sequence up to length L over each format's alphabet (L=3 quick, 4 thorough); later indices sample valid streams, mutated/truncated/spliced variants, cross-format inputs, UTF-16/32 YAML, depth-window documents and random bytes. Non-trivial: the drawn-schedule producer delivered the input in >= 2 reads. Distinct = distinct (bytes, formats, schedule).",
	real: LIB_REAL,
	stub: LIB_STUB,
	assumptions: &["error texts are not compared (the statement does not require it)", "inputs stay below 2 MiB (detection above that is excluded by the statement)"],
	expected_probes: &["family.tokens", "family.valid", "family.mutant", "family.random", "family.utf16_32", "family.dupkeys", "family.boundary_utf8", "verdict.ok", "verdict.err", "cut_inside_first_document"],
	needs_bins: false,
	watchdog_s: 30,
};

fn tok_len(t: Tier) -> usize {
	match t {
		Tier::Quick => 3,
		Tier::Thorough => 4,
	}
}

fn tok_total(t: Tier) -> u64 {
	ALL_FMTS.iter().map(|f| gen::token_seq_count(gen::alphabet(*f).len(), tok_len(t))).sum()
}

fn runs(t: Tier) -> u64 {
	tok_total(t)
		+ match t {
			Tier::Quick => 60_000,
			Tier::Thorough => 4_000_000,
		}
}

pub fn encode_utf(text: &str, enc: usize, bom: bool) -> Vec<u8> {
	// enc: 0 utf16be, 1 utf16le, 2 utf32be, 3 utf32le
	let mut out = vec![];
	let mut chars: Vec<char> = vec![];
	if bom {
		chars.push('\u{feff}');
	}
	chars.extend(text.chars());
	for c in chars {
		match enc {
			0 | 1 => {
				let mut b = [0u16; 2];
				for u in c.encode_utf16(&mut b) {
					out.extend_from_slice(&if enc == 0 { u.to_be_bytes() } else { u.to_le_bytes() });
				}
			}
			_ => {
				let u = c as u32;
				out.extend_from_slice(&if enc == 2 { u.to_be_bytes() } else { u.to_le_bytes() });
			}
		}
	}
	out
}

fn gen(seed: u64, idx: u64, t: Tier) -> J {
	let mut r = Rng::derive(seed, "C02", idx);
	let tt = tok_total(t);
	let (bytes, f, family): (Vec<u8>, Fmt, &str);
	if idx < tt {
		// Exhaustive token sequences.
		let mut i = idx;
		let mut found = None;
		for fm in ALL_FMTS {
			let alpha = gen::alphabet(fm);
			let n = gen::token_seq_count(alpha.len(), tok_len(t));
			if i < n {
				found = Some((gen::token_seq(&alpha, tok_len(t), i).expect("in range"), fm));
				break;
			}
			i -= n;
		}
		let (b, fm) = found.expect("token index in range");
		bytes = b;
		f = fm;
		family = "tokens";
	} else {
		let fam = r.below(100);
		let (cf, stream) = corpus_stream(&mut r, 5);
		if fam < 30 {
			bytes = stream.bytes;
			f = cf;
			family = "valid";
		} else if fam < 60 {
			let mut b = stream.bytes;
			let (_, other) = corpus_stream(&mut r, 2);
			gen::mutate(&mut r, &mut b, &other.bytes);
			bytes = b;
			f = cf;
			family = "mutant";
		} else if fam < 63 {
			// JSON objects that repeat a key (mostly for the TOML target, where the two
			// ways of building a toml::Value treat repeats differently).
			let cfg = GenCfg { max_depth: 2, max_len: 3, ..GenCfg::toml_safe() };
			let mut members: Vec<(String, String)> = vec![];
			for _ in 0..r.range(1, 4) {
				let k = gen::to_json(&gen::V::S(gen::gen_string(&mut r, &cfg)), &mut r, false);
				let v = gen::to_json(&gen::gen_value(&mut r, &cfg, 1), &mut r, false);
				members.push((k, v));
			}
			let i = r.usize_below(members.len());
			let again = (members[i].0.clone(), gen::to_json(&gen::gen_value(&mut r, &cfg, 1), &mut r, false));
			let at = r.range(i + 1, members.len());
			members.insert(at, again);
			let body: Vec<String> = members.iter().map(|(k, v)| format!("{k}: {v}")).collect();
			bytes = format!("{{{}}}", body.join(", ")).into_bytes();
			f = Fmt::Json;
			family = "dupkeys";
		} else if fam < 65 {
			// A multi-byte character that starts just before an 8 KiB / 16 KiB buffer edge.
			let fm = *r.pick(&[Fmt::Json, Fmt::Yaml, Fmt::Toml]);
			bytes = gen::boundary_text(&mut r, fm);
			f = fm;
			family = "boundary_utf8";
		} else if fam < 68 {
			let n = r.range(0, 40);
			bytes = (0..n).map(|_| r.next() as u8).collect();
			f = *r.pick(&ALL_FMTS);
			family = "random";
		} else if fam < 78 {
			// longer random token sequences
			let fm = *r.pick(&ALL_FMTS);
			let n = r.range(tok_len(t) + 1, 12);
			bytes = gen::random_tokens(&mut r, &gen::alphabet(fm), n);
			f = fm;
			family = "tokens";
		} else if fam < 90 {
			// UTF-16/32 renderings of YAML text (some ASCII-only)
			let mut cfg = GenCfg::common();
			cfg.unicode = r.chance(1, 2);
			cfg.max_depth = 2;
			let nd = r.range(1, 3);
			let (s, _) = gen::gen_stream(&mut r, Fmt::Yaml, nd, &cfg, true);
			let text = String::from_utf8_lossy(&s.bytes).into_owned();
			let text = if cfg.unicode { text } else { text.chars().filter(char::is_ascii).collect() };
			// sometimes a large text with multi-byte characters at the 8/16 KiB edges of its UTF-8 form
			let text = if r.chance(1, 6) { String::from_utf8_lossy(&gen::boundary_text(&mut r, Fmt::Yaml)).into_owned() } else { text };
			bytes = encode_utf(&text, r.usize_below(4), r.chance(1, 2));
			f = Fmt::Yaml;
			family = "utf16_32";
		} else {
			// nesting around each format's limit
			let fm = *r.pick(&ALL_FMTS);
			let limit = match fm {
				Fmt::Msgpack => 1024,
				Fmt::Toml => 80,
				_ => 128,
			};
			let d = (limit as i64 + r.range(0, 8) as i64 - 4).max(1) as usize;
			let shape = if fm == Fmt::Msgpack { *r.pick(&gen::SHAPES) } else { *r.pick(&gen::SHAPES[..4]) };
			bytes = gen::nested(fm, shape, d, r.next());
			f = fm;
			family = "depth";
		}
	}
	let from = match r.below(10) {
		0..=4 => Some(f),
		5..=7 => None,
		_ => Some(*r.pick(&ALL_FMTS)),
	};
	let to = if r.chance(1, 5) || (family == "dupkeys" && r.chance(3, 4)) { Fmt::Toml } else { *r.pick(&crate::scenario::STREAM_FMTS) };
	let sched = loop {
		let s = gen::gen_sched(&mut r, bytes.len());
		if !s.is_whole() {
			break s;
		}
	};
	let sched = if family == "boundary_utf8" && r.chance(1, 2) { Sched::bytes(*r.pick(&[8192u32, 4096, 16384, 8191, 8193, 1000])) } else { sched };
	let mut sc = Scenario::new(to, vec![Call::reader(bytes, from, sched)]);
	set_param(&mut sc, "family", json!(family));
	sc.to_json()
}

fn eval(case: &J) -> Eval {
	let sc = parse(case);
	let mut ev = Eval::default();
	let c0 = &sc.calls[0];
	let tag = format!("{}->{}", from_name(c0.from), sc.to.name());
	let family = sc.param_s("family").unwrap_or("?");
	ev.count(
		match family {
			"tokens" => "family.tokens",
			"valid" => "family.valid",
			"mutant" => "family.mutant",
			"random" => "family.random",
			"utf16_32" => "family.utf16_32",
			"depth" => "family.depth",
			"dupkeys" => "family.dupkeys",
			"boundary_utf8" => "family.boundary_utf8",
			_ => "family.other",
		},
		1,
	);
	let mk = |reader: bool, sched: Sched| -> Scenario {
		let mut s = sc.clone();
		s.calls[0].reader = reader;
		s.calls[0].sched = sched;
		s
	};
	let small = if c0.bytes.len() <= 8192 { Sched::bytes(1) } else { Sched::bytes(7) };
	let variants: Vec<(&str, Scenario)> = vec![("slice", mk(false, Sched::whole())), ("reader(drawn schedule)", mk(true, c0.sched.clone())), ("reader(1-byte reads)", mk(true, small)), ("reader(never short)", mk(true, Sched::whole()))];
	let mut outs = vec![];
	for (name, s) in &variants {
		let o = exec::run(s);
		global_invariants(&mut ev, s, &o, name);
		add_io_counters(&mut ev, &o);
		outs.push(o);
	}
	let v0 = outs[0].verdict(0).clone();
	ev.count(if v0.is_ok() { "verdict.ok" } else { "verdict.err" }, 1);
	for i in 0..outs.len() {
		for j in (i + 1)..outs.len() {
			let (vi, vj) = (outs[i].verdict(0), outs[j].verdict(0));
			if vi.code() == 2 || vj.code() == 2 {
				continue; // panics are reported by the global invariant
			}
			let pair = if i == 0 { "slice-vs-reader" } else { "reader-vs-reader" };
			if vi.kind() != vj.kind() {
				// Report each disagreement once (against the slice when possible).
				if i == 0 || outs[0].verdict(0).kind() == vi.kind() {
					ev.violate(
						format!("verdict/{tag}/{pair}/{}-vs-{}", vi.kind(), vj.kind()),
						format!("{}: {} ({:?}) but {}: {} ({:?}) for input {:?}", variants[i].0, vi.kind(), vi.text(), variants[j].0, vj.kind(), vj.text(), show(&c0.bytes)),
					);
				}
			} else if vi.is_ok() {
				if outs[i].out != outs[j].out {
					ev.violate(
						format!("bytes/{tag}/{pair}"),
						format!("both succeed but outputs differ at byte {}: {} wrote {:?}, {} wrote {:?}", first_diff(&outs[i].out, &outs[j].out), variants[i].0, show(&outs[i].out), variants[j].0, show(&outs[j].out)),
					);
				}
			} else if !prefix_comparable(&outs[i].out, &outs[j].out) {
				ev.violate(
					format!("partial/{tag}/{pair}"),
					format!("both fail but partial outputs are not prefix-comparable (first difference at byte {}): {} wrote {:?}, {} wrote {:?}", first_diff(&outs[i].out, &outs[j].out), variants[i].0, show(&outs[i].out), variants[j].0, show(&outs[j].out)),
				);
			}
		}
	}
	let drawn = &outs[1];
	ev.nontrivial = drawn.calls[0].data_reads >= 2;
	if drawn.calls[0].data_reads >= 2 {
		ev.count("cut_inside_first_document", 1);
	}
	ev.key = key_of(&sc, sched_hash(&c0.sched));
	ev.trace = mix(drawn.trace_hash(), outs[0].trace_hash());
	ev
}
