//! C05 - streaming translation: bounded lag and bounded memory.
//!
//! One run = one producer delivering a stream of N documents packet by packet
//! (one document per read, several, a fraction, fixed byte counts, random),
//! one consumer. The oracle is evaluated over the *history*: at every read
//! xt issues once documents 0..=j are fully delivered, the translations of
//! documents 0..=j-2 must already have been handed to the consumer. Memory:
//! peak live heap attributable to xt must not grow with the stream length.

use serde_json::{json, Value as J};

use super::common::*;
use crate::exec::{self, Opts, Verdict};
use crate::gen::{self, GenCfg, V};
use crate::prop::{Eval, PropDef, Tier};
use crate::rng::Rng;
use crate::scenario::{from_name, Call, Fmt, Scenario, STREAM_FMTS};
use crate::simio::{Ev, Sched};

pub static DEF: PropDef = PropDef {
	id: "C05",
	level: "exploration",
	runs,
	gen,
	eval,
	shrink,
	rule: "run = stream of N documents (N 10..2000 quick, up to 100000 thorough; document sizes 8 B..256 KiB) in JSON/MessagePack/YAML, explicit format or detection, delivered by a simulated producer under a packetisation policy (1 document per read, k documents per read, a fraction of a document per read, fixed n bytes, random sizes), consumer accepting everything or short pieces, streaming targets only. Oracle over the recorded read/write history (lag bound of the statement) plus allocator statistics (absolute bound and growth between N/4 and N documents). Non-trivial: N >= 10 and the producer performed >= N/2 data-returning reads. Distinct = distinct (stream bytes, formats, packetisation).",
	real: LIB_REAL,
	stub: LIB_STUB,
	assumptions: &[
		"per-document output lengths come from xt's own translation of each document alone (as in C03)",
		"memory is measured with a counting global allocator on the simulation thread; harness bookkeeping (event log, consumer byte log) is excluded by an explicit guard",
		"memory bounds used: sanity bound peak < 4 MiB + 64*max_document (the YAML path legitimately holds ~20x the text of the document being parsed); deciding test: peak(N) - peak(N/4) > 64 KiB + 2*max_document AND both increments peak(N/2)-peak(N/4), peak(N)-peak(N/2) are at least half the input bytes added (growth with the stream, not a one-time jump between code paths)",
	],
	expected_probes: &["policy.doc_per_read", "policy.k_docs_per_read", "policy.fraction", "policy.bytes", "policy.random", "detect", "lag0", "lag1", "big_docs", "w.short", "memory_growth_checked", "history_before_stream"],
	needs_bins: false,
	watchdog_s: 120,
};

fn runs(t: Tier) -> u64 {
	match t {
		Tier::Quick => 3_000,
		Tier::Thorough => 100_000,
	}
}

fn sized_doc(r: &mut Rng, f: Fmt, size: usize) -> Vec<u8> {
	// A collection whose rendering is roughly `size` bytes.
	let mut items = vec![];
	let mut approx = 2;
	while approx < size {
		let s: String = (0..r.range(1, 24).min(size)).map(|_| (b'a' + r.below(26) as u8) as char).collect();
		approx += s.len() + 4;
		items.push(if r.chance(1, 4) { V::I(r.next() as i64 >> 40) } else { V::S(s) });
		if items.len() > 60_000 {
			break;
		}
	}
	let v = if r.chance(1, 2) { V::A(items) } else { V::M(items.into_iter().enumerate().map(|(i, x)| (V::S(format!("k{i}")), x)).collect()) };
	match f {
		Fmt::Json => gen::to_json(&v, r, false).into_bytes(),
		Fmt::Msgpack => gen::to_msgpack(&v, r, false),
		_ => {
			if r.chance(1, 2) {
				gen::to_yaml_flow(&v).into_bytes()
			} else {
				let mp = gen::to_msgpack(&v, r, false);
				let y = gen::via_xt(&mp, Fmt::Msgpack, Fmt::Yaml).unwrap_or_default();
				y.strip_prefix(b"---\n").map(<[u8]>::to_vec).unwrap_or(y)
			}
		}
	}
}

fn gen(seed: u64, idx: u64, t: Tier) -> J {
	let mut r = Rng::derive(seed, "C05", idx);
	let f = *r.pick(&STREAM_FMTS);
	let to = *r.pick(&STREAM_FMTS);
	let big = r.chance(1, 12);
	let n = if big {
		r.range(10, 24)
	} else {
		match t {
			Tier::Quick => r.log_range(10, 2000),
			Tier::Thorough => {
				if r.chance(1, 200) {
					r.log_range(20_000, 100_000)
				} else {
					r.log_range(10, 5000)
				}
			}
		}
	};
	let max_size = if big { r.log_range(8 * 1024, 256 * 1024) } else { r.log_range(8, 2048) };
	// One stream in five is long enough for the memory-growth comparison (its first quarter
	// must exceed every look-ahead constant, see eval).
	let n = if !big && r.chance(1, 5) { n.max(r.log_range(800, 4000)) } else { n };
	let max_size = if !big && n >= 800 { max_size.max(256) } else { max_size };
	let mut docs = vec![];
	let cfg = GenCfg { max_depth: 2, max_len: 3, bytes: false, nonstring_keys: false, ..GenCfg::common() };
	// A pool of distinct documents, reused cyclically for very long streams.
	let pool_n = n.min(400);
	let mut pool = vec![];
	while pool.len() < pool_n {
		let d = if r.chance(1, 3) || big {
			let sz = r.log_range(8, max_size);
			sized_doc(&mut r, f, sz)
		} else {
			let v = gen::gen_doc(&mut r, &cfg);
			match gen::render(&v, f, &mut r, false) {
				Some(b) => b,
				None => continue,
			}
		};
		let alone: Vec<u8> = if f == Fmt::Yaml { [b"---\n".as_slice(), &d, b"\n"].concat() } else { d.clone() };
		if exec::t0(&alone, Some(f), to).0.is_ok() {
			pool.push(d);
		}
	}
	for i in 0..n {
		docs.push(pool[i % pool.len()].clone());
	}
	// A third of the streams use every separator the format allows (YAML comments,
	// '...' terminators, a bare first document; JSON blanks and CRLF).
	let varied = r.chance(1, 3);
	let mut stream = gen::build_stream(&docs, f, &mut r, varied);
	// One YAML stream in five arrives in another encoding of the same text: UTF-8 behind a
	// byte order mark, or UTF-16/32 (either byte order, with or without the mark).
	let mut enc = "utf8";
	if f == Fmt::Yaml && r.chance(1, 4) {
		let choice = *r.pick(&["utf8bom", "utf8bom", "utf16be", "utf16le", "utf32be", "utf32le"]);
		if stream.bytes.starts_with(b"---\n") && r.chance(2, 3) {
			// make the first document a bare one (a mark cannot be followed by '---')
			stream.bytes.drain(..4);
			stream.docs = stream.docs.iter().map(|&(a, e)| (a.saturating_sub(4), e - 4)).collect();
		}
		if let Ok(text) = std::str::from_utf8(&stream.bytes) {
			let bom = choice == "utf8bom" || r.chance(1, 2);
			// (xt refuses a mark that is followed by '---', and an unmarked UTF-16/32 text
			// is recognised only when it starts with an ASCII character)
			let ok = if choice == "utf8bom" { !text.starts_with("---") } else { bom && !text.starts_with("---") || (!bom && text.chars().next().is_some_and(|c| c.is_ascii())) };
			// (behind a mark libyaml takes the first line for indented by one column; the
			// marked stream as a whole has to translate, not only its documents alone)
			let ok = ok && (choice != "utf8bom" || exec::t0(&[b"\xef\xbb\xbf".as_slice(), text.as_bytes()].concat(), Some(f), to).0.is_ok());
			if ok {
				let (b, map) = encode_with_map(text, choice, bom);
				stream.docs = stream.docs.iter().map(|&(a, e)| (map[a], map[e])).collect();
				stream.bytes = b;
				enc = choice;
			}
		}
	}
	let mut from = if r.chance(1, 2) { Some(f) } else { None };
	if from.is_none() {
		let head_end = stream.docs.get(3).map_or(stream.bytes.len(), |d| d.1);
		let det = xt::verif::detect_slice(&stream.bytes[..head_end]).ok().flatten().map(Fmt::from_xt);
		if det != Some(f) {
			from = Some(f);
		}
	}
	let ends: Vec<usize> = stream.docs.iter().map(|d| d.1).collect();
	let (policy, sched) = match r.below(5) {
		0 => ("doc_per_read", gen::sched_at_offsets(&ends, 0)),
		1 => {
			let k = r.range(2, 7);
			let e: Vec<usize> = ends.iter().copied().enumerate().filter(|(i, _)| (i + 1) % k == 0).map(|(_, e)| e).collect();
			("k_docs_per_read", gen::sched_at_offsets(&e, 0))
		}
		2 => {
			// a fraction of a document per read
			let parts = r.range(2, 5);
			let mut list = vec![];
			let mut prev = 0;
			for &(s, e) in &stream.docs {
				let len = e - prev;
				let _ = s;
				let step = (len / parts).max(1);
				let mut done = 0;
				while done < len {
					let nn = step.min(len - done);
					list.push(nn as u32);
					done += nn;
				}
				prev = e;
			}
			("fraction", Sched { list, cycle: false })
		}
		3 => ("bytes", Sched::bytes(r.log_range(1, 20_000) as u32)),
		_ => {
			let mean = r.log_range(4, 8192);
			let mut list = vec![];
			let mut total = 0;
			while total < stream.bytes.len() && list.len() < 400_000 {
				let nn = r.geometric(mean);
				list.push(nn as u32);
				total += nn;
			}
			("random", Sched { list, cycle: true })
		}
	};
	let mut calls = vec![];
	if r.chance(1, 3) {
		// The translator has a history: one or two earlier (small) inputs in any format,
		// declared or detected, before the stream arrives.
		for _ in 0..r.range(1, 2) {
			let (pf, ps) = corpus_stream(&mut r, 2);
			if !exec::t0(&ps.bytes, Some(pf), to).0.is_ok() {
				continue;
			}
			let det = xt::verif::detect_slice(&ps.bytes).ok().flatten().map(Fmt::from_xt);
			let pfrom = if det == Some(pf) && r.chance(2, 3) { None } else { Some(pf) };
			let rd = r.chance(1, 2);
			let mut c = Call::reader(ps.bytes, pfrom, if rd { gen::gen_sched(&mut r, 64) } else { Sched::whole() });
			c.reader = rd;
			calls.push(c);
		}
	}
	calls.push(Call::reader(stream.bytes, from, sched));
	let mut sc = Scenario::new(to, calls);
	if r.chance(1, 4) {
		sc.writer.sched = Sched::bytes(r.log_range(1, 4096) as u32);
	}
	set_param(&mut sc, "policy", json!(policy));
	set_param(&mut sc, "fmt", json!(f.name()));
	set_param(&mut sc, "enc", json!(enc));
	set_param(&mut sc, "docs", json!(stream.docs.iter().map(|(a, b)| json!([a, b])).collect::<Vec<_>>()));
	sc.to_json()
}

/// Encodes UTF-8 text; `map[i]` is the encoded offset of UTF-8 byte offset `i` (0..=len).
pub fn encode_with_map(text: &str, enc: &str, bom: bool) -> (Vec<u8>, Vec<usize>) {
	let mut out: Vec<u8> = vec![];
	let put = |out: &mut Vec<u8>, c: char| match enc {
		"utf16be" | "utf16le" => {
			let mut b = [0u16; 2];
			for u in c.encode_utf16(&mut b) {
				out.extend_from_slice(&if enc == "utf16be" { u.to_be_bytes() } else { u.to_le_bytes() });
			}
		}
		"utf32be" => out.extend_from_slice(&(c as u32).to_be_bytes()),
		"utf32le" => out.extend_from_slice(&(c as u32).to_le_bytes()),
		_ => {
			let mut b = [0u8; 4];
			out.extend_from_slice(c.encode_utf8(&mut b).as_bytes());
		}
	};
	if bom {
		put(&mut out, '\u{feff}');
	}
	let mut map = vec![0usize; text.len() + 1];
	for (i, c) in text.char_indices() {
		for k in 0..c.len_utf8() {
			map[i + k] = out.len();
		}
		put(&mut out, c);
	}
	map[text.len()] = out.len();
	(out, map)
}

/// Decodes what `encode_with_map` produced (a leading mark is dropped).
pub fn decode_to_utf8(b: &[u8], enc: &str) -> Option<String> {
	let s: String = match enc {
		"utf16be" | "utf16le" => {
			let units: Vec<u16> = b.chunks(2).map(|c| if c.len() < 2 { 0xfffd } else if enc == "utf16be" { u16::from_be_bytes([c[0], c[1]]) } else { u16::from_le_bytes([c[0], c[1]]) }).collect();
			String::from_utf16(&units).ok()?
		}
		"utf32be" | "utf32le" => {
			let mut t = String::new();
			for c in b.chunks(4) {
				if c.len() < 4 {
					return None;
				}
				let u = if enc == "utf32be" { u32::from_be_bytes([c[0], c[1], c[2], c[3]]) } else { u32::from_le_bytes([c[0], c[1], c[2], c[3]]) };
				t.push(char::from_u32(u)?);
			}
			t
		}
		_ => String::from_utf8(b.to_vec()).ok()?,
	};
	Some(s.strip_prefix('\u{feff}').map_or(s.clone(), str::to_owned))
}

fn ranges(sc: &Scenario) -> Vec<(usize, usize)> {
	sc.params.get("docs").and_then(J::as_array).map(|a| a.iter().map(|d| (d[0].as_u64().unwrap_or(0) as usize, d[1].as_u64().unwrap_or(0) as usize)).collect()).unwrap_or_default()
}

fn eval(case: &J) -> Eval {
	let sc = parse(case);
	let mut ev = Eval::default();
	let docs = ranges(&sc);
	let f = sc.param_s("fmt").and_then(Fmt::parse).unwrap_or(Fmt::Json);
	let n = docs.len();
	let enc = sc.param_s("enc").unwrap_or("utf8").to_owned();
	ev.count(
		match enc.as_str() {
			"utf8" => "enc.utf8",
			"utf8bom" => "enc.utf8_bom",
			_ => "enc.utf16_32",
		},
		1,
	);
	let si = sc.calls.len() - 1; // the stream is the last call of the history
	let bytes = &sc.calls[si].bytes;
	let tag = format!("{}->{}", from_name(sc.calls[si].from), sc.to.name());
	// Output end offsets of each document (translations of each document alone).
	let mut o_end: Vec<u64> = Vec::with_capacity(n);
	let mut total = 0u64;
	let mut cache: std::collections::HashMap<u64, u64> = std::collections::HashMap::new();
	let mut max_doc = 0usize;
	for &(s, e) in &docs {
		if e > bytes.len() || s > e {
			return ev;
		}
		max_doc = max_doc.max(e - s);
		let h = hash_bytes(&bytes[s..e]);
		let len = match cache.get(&h) {
			Some(l) => *l,
			None => {
				let alone: std::borrow::Cow<[u8]> = if enc == "utf8" || enc == "utf8bom" {
					std::borrow::Cow::Borrowed(&bytes[s..e])
				} else {
					match decode_to_utf8(&bytes[s..e], &enc) {
						Some(t) => std::borrow::Cow::Owned(t.into_bytes()),
						None => return ev,
					}
				};
				let (v, out) = exec::t0(&alone, Some(f), sc.to);
				ev.execs += 1;
				if !v.is_ok() {
					return ev;
				}
				cache.insert(h, out.len() as u64);
				out.len() as u64
			}
		};
		total += len;
		o_end.push(total);
	}
	let o = exec::run_with(&sc, Opts { drop_out: true, measure: true, ..Opts::default() });
	global_invariants(&mut ev, &sc, &o, "stream");
	add_io_counters(&mut ev, &o);
	if o.calls.len() <= si || o.calls[..si].iter().any(|c| !matches!(c.verdict, Some(Verdict::Ok))) {
		return ev; // an earlier input of the history failed: not this property's business
	}
	match o.verdict(si) {
		Verdict::Ok => {}
		Verdict::Err(e) => {
			ev.violate(format!("stream-failed/{tag}"), format!("a stream of {n} documents, each translatable alone, failed: {e}"));
			return ev;
		}
		Verdict::Panic(_) => return ev,
	}
	let base = o.calls[si].out_before;
	ev.count("history_before_stream", u64::from(si > 0));
	if o.out_total - base != total {
		ev.violate(format!("length/{tag}"), format!("consumer received {} bytes for the stream, the per-document translations add up to {total}", o.out_total - base));
	}
	// Lag oracle over the history.
	let mut written = 0u64;
	let mut j = 0usize; // number of documents fully delivered before the current read
	let mut max_lag = 0usize;
	let mut worst: Option<(usize, u64, u64)> = None;
	for e in &o.log.ev {
		match *e {
			Ev::Write { total_after, .. } => written = total_after.saturating_sub(base),
			Ev::Read { call, got, off_after, .. } if call as usize == si => {
				let before = off_after - got.max(0) as u64;
				while j < n && docs[j].1 as u64 <= before {
					j += 1;
				}
				// documents 0..j delivered; number completely written:
				let done = o_end.partition_point(|&x| x <= written);
				let lag = j.saturating_sub(done);
				if lag > max_lag {
					max_lag = lag;
					worst = Some((j, before, written));
				}
			}
			_ => {}
		}
	}
	// Statement: when asking for data beyond document k+2, document k is complete => lag <= 2.
	if max_lag > 2 {
		let (jj, before, w) = worst.unwrap();
		ev.violate(
			format!("lag/{tag}"),
			format!("xt asked the producer for more data at input offset {before}, when {jj} documents had been fully delivered, but only {w} output bytes ({} complete documents) had reached the consumer: lag {max_lag} documents (bound 2); policy {}", o_end.partition_point(|&x| x <= w), sc.param_s("policy").unwrap_or("?")),
		);
	}
	ev.count(
		match max_lag {
			0 => "lag0",
			1 => "lag1",
			2 => "lag2",
			_ => "lag>2",
		},
		1,
	);
	// Memory.
	let peak = o.mem.peak.max(0) as usize;
	let abs_bound = (4 << 20) + 64 * max_doc;
	if peak > abs_bound {
		ev.violate(format!("memory/absolute/{tag}"), format!("peak live heap attributable to xt is {peak} bytes for a {}-byte stream of {n} documents (largest document {max_doc} bytes; bound {abs_bound})", bytes.len()));
	}
	// (Only for streams whose first quarter is already longer than every look-ahead constant -
	// the 8 KiB BufReader, libyaml's 16 KiB reads: a shorter prefix may be read to its end
	// during detection and handed on as a slice, a different regime with different constants,
	// and the step between the regimes is not growth.)
	if n >= 40 && docs[n / 4 - 1].1 >= 32 * 1024 {
		// The same stream cut after N/4 and after N/2 documents. Retained memory that grows
		// with the stream shows in BOTH increments, roughly in proportion to the bytes
		// added; a one-time jump (e.g. detection reading a short stream to EOF and
		// switching to the slice path, whose constant differs) shows in at most one.
		let measure = |upto: usize, ev: &mut Eval| -> Option<(usize, usize)> {
			let cut = docs[upto - 1].1;
			let mut s2 = sc.clone();
			s2.calls[si].bytes.truncate(cut);
			if f == Fmt::Json {
				s2.calls[si].bytes.push(b'\n');
			}
			let o2 = exec::run_with(&s2, Opts { drop_out: true, lean: true, measure: true, ..Opts::default() });
			ev.execs += 1;
			(o2.calls.len() > si && o2.verdict(si).is_ok()).then(|| (o2.mem.peak.max(0) as usize, cut))
		};
		if let (Some((p4, b4)), Some((p2, b2))) = (measure(n / 4, &mut ev), measure(n / 2, &mut ev)) {
			ev.count("memory_growth_checked", 1);
			let max_q = docs[..n / 4].iter().map(|d| d.1 - d.0).max().unwrap_or(0);
			let bound = (64 << 10) + 2 * max_doc;
			let g_total = peak.saturating_sub(p4);
			let g_first = p2.saturating_sub(p4);
			let g_second = peak.saturating_sub(p2);
			let (added_first, added_second) = (b2 - b4, bytes.len() - b2);
			// Only comparable when the largest document is in every part.
			if max_q == max_doc && g_total > bound && g_first * 2 >= added_first && g_second * 2 >= added_second {
				ev.violate(format!("memory/growth/{tag}"), format!("peak live heap grows with stream length: {p4} bytes for the first {} documents ({b4} bytes), {p2} for {} ({b2} bytes), {peak} for all {n} ({} bytes); largest document {max_doc} bytes", n / 4, n / 2, bytes.len()));
			}
		}
	}
	ev.count(
		match sc.param_s("policy").unwrap_or("") {
			"doc_per_read" => "policy.doc_per_read",
			"k_docs_per_read" => "policy.k_docs_per_read",
			"fraction" => "policy.fraction",
			"bytes" => "policy.bytes",
			_ => "policy.random",
		},
		1,
	);
	ev.count("detect", u64::from(sc.calls[si].from.is_none()));
	ev.count("detect_first_doc_over_8k", u64::from(sc.calls[si].from.is_none() && docs.first().is_some_and(|d| d.1 - d.0 > 8192)));
	ev.count("big_docs", u64::from(max_doc >= 8192));
	ev.nontrivial = n >= 10 && o.calls[si].data_reads as usize >= n / 2;
	ev.key = key_of(&sc, sched_hash(&sc.calls[si].sched));
	ev.trace = crate::rng::mix(o.trace_hash(), max_lag as u64);
	ev
}

fn shrink(case: &J) -> Vec<J> {
	let sc = parse(case);
	let si = sc.calls.len() - 1;
	let docs = ranges(&sc);
	let n = docs.len();
	let mut out = vec![];
	if si > 0 {
		let mut s = sc.clone();
		s.calls.remove(0);
		out.push(s.to_json());
	}
	// Keep a prefix / suffix of the documents (schedule is kept as is for byte policies,
	// replaced by the document-per-read policy otherwise).
	let mut keep: Vec<(usize, usize)> = vec![];
	if n > 4 {
		keep.push((0, n / 2));
		keep.push((n / 2, n));
		keep.push((0, n - 1));
		keep.push((1, n));
	}
	for (a, b) in keep {
		let base = if a == 0 { 0 } else { docs[a].0 };
		let end = docs[b - 1].1;
		let mut s = sc.clone();
		s.calls[si].bytes = sc.calls[si].bytes[base..end].to_vec();
		if sc.param_s("fmt") == Some("json") {
			s.calls[si].bytes.push(b'\n');
		}
		let nd: Vec<(usize, usize)> = docs[a..b].iter().map(|(x, y)| (x - base, y - base)).collect();
		set_param(&mut s, "docs", json!(nd.iter().map(|(x, y)| json!([x, y])).collect::<Vec<_>>()));
		if !s.calls[si].sched.cycle {
			let ends: Vec<usize> = nd.iter().map(|d| d.1).collect();
			s.calls[si].sched = gen::sched_at_offsets(&ends, 0);
		}
		out.push(s.to_json());
	}
	if !sc.writer.sched.is_whole() {
		let mut s = sc.clone();
		s.writer.sched = Sched::whole();
		out.push(s.to_json());
	}
	if sc.calls[si].from.is_none() {
		if let Some(f) = sc.param_s("fmt").and_then(Fmt::parse) {
			let mut s = sc.clone();
			s.calls[si].from = Some(f);
			out.push(s.to_json());
		}
	}
	out
}
