//! The interface every property check implements, and shared result types.

use serde_json::Value as J;

#[derive(Clone, Debug)]
pub struct Violation {
	/// Stable signature: oracle name + normalised verdict pair + formats + path tag.
	pub class: String,
	pub msg: String,
}

impl Violation {
	pub fn new(class: impl Into<String>, msg: impl Into<String>) -> Violation {
		Violation { class: class.into(), msg: msg.into() }
	}
}

#[derive(Default)]
pub struct Eval {
	pub violations: Vec<Violation>,
	/// The run meets the property's non-triviality rule.
	pub nontrivial: bool,
	/// Hash identifying (input, abstract trace) for distinctness counting.
	pub key: u64,
	/// Hash of the abstract trace alone.
	pub trace: u64,
	/// Number of simulated I/O events (the "simulated time" of the run).
	pub events: u64,
	/// Executions of xt performed for this run (twins included).
	pub execs: u64,
	/// Fault kinds that fired and probes that were hit: (name, count).
	pub counters: Vec<(&'static str, u64)>,
}

impl Eval {
	pub fn count(&mut self, name: &'static str, n: u64) {
		if n > 0 {
			self.counters.push((name, n));
		}
	}
	pub fn violate(&mut self, class: impl Into<String>, msg: impl Into<String>) {
		self.violations.push(Violation::new(class, msg));
	}
}

#[derive(Clone, Copy, PartialEq, Eq, Debug)]
pub enum Tier {
	Quick,
	Thorough,
}

impl Tier {
	pub fn name(self) -> &'static str {
		match self {
			Tier::Quick => "quick",
			Tier::Thorough => "thorough",
		}
	}
	pub fn parse(s: &str) -> Option<Tier> {
		match s {
			"quick" => Some(Tier::Quick),
			"thorough" => Some(Tier::Thorough),
			_ => None,
		}
	}
}

pub struct PropDef {
	pub id: &'static str,
	pub level: &'static str,
	/// Number of run indices per tier.
	pub runs: fn(Tier) -> u64,
	/// Run index -> explicit case (pure function of seed, idx, tier).
	pub gen: fn(u64, u64, Tier) -> J,
	/// Executes a case against the code under test and evaluates the oracles.
	pub eval: fn(&J) -> Eval,
	/// Smaller variants of a case, most aggressive first.
	pub shrink: fn(&J) -> Vec<J>,
	/// Human-readable rule: how cases are generated, what is non-trivial/distinct.
	pub rule: &'static str,
	pub real: &'static [&'static str],
	pub stub: &'static [&'static str],
	pub assumptions: &'static [&'static str],
	/// Counter names that should be non-zero in every full run of a tier.
	pub expected_probes: &'static [&'static str],
	/// Process-level checks need the xt binaries and the interposer.
	pub needs_bins: bool,
	/// Per-run wall-clock watchdog (seconds).
	pub watchdog_s: u64,
}
