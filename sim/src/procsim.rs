//! Process layer: the shipped xt binaries (built from /repo's own manifest,
//! guard off) run as real child processes with the syscall interposer
//! preloaded. The driver writes the input files, the plan and collects wait
//! status, stdout, stderr and the interposer's event log. A small executable
//! model of the documented CLI plus the library give the expectations.

use std::cell::RefCell;
use std::io::Write;
use std::os::unix::process::{CommandExt, ExitStatusExt};
use std::process::{Command, Stdio};
use std::rc::Rc;
use std::time::{Duration, Instant};

use serde_json::{json, Value as J};

use crate::exec::{guarded, Verdict};
use crate::prop::Eval;
use crate::runner::BUILD_DIR;
use crate::scenario::{hex, unhex, Fmt};
use crate::simio::{Log, RFault, Sched, SimReader};

pub const PROC_REAL: &[&str] = &[
	"the xt binary built from /repo's own Cargo.toml with the verif feature OFF (debug and release): main.rs, bail.rs, pipecheck.rs, the whole library",
	"libstd stdio (BufWriter, LineWriter, process::exit), the dynamic loader, the kernel's exec/wait/signal delivery, real files and directories",
];
pub const PROC_STUB: &[&str] = &["byte transport of fd 0, fd 1 and input-file fds (LD_PRELOAD interposer: write/writev/read)", "mmap success for input files", "isatty(1)"];

#[derive(Clone, Debug, Default)]
pub struct ReadPlan {
	pub sched: Sched,
	pub fail: Option<(usize, i32)>,
	pub eintr: Vec<u32>,
}

#[derive(Clone, Debug, Default)]
pub struct FileSpec {
	pub name: String,
	/// "file", "dir", "missing"
	pub kind: String,
	pub bytes: Vec<u8>,
	pub plan: Option<ReadPlan>,
}

#[derive(Clone, Debug, Default)]
pub struct ProcCase {
	pub bin: String,
	pub args: Vec<String>,
	pub files: Vec<FileSpec>,
	pub stdin: Option<Vec<u8>>,
	pub stdin_plan: Option<ReadPlan>,
	/// Bytes that precede the input in the regular file behind fd 0 and that an earlier
	/// reader of the descriptor (a shell `read`, a parent process) has already consumed:
	/// xt inherits the descriptor positioned behind them.
	pub stdin_skip: usize,
	pub wsched: Sched,
	pub wfail: Option<(usize, i32)>,
	pub weintr: Vec<u32>,
	pub tty: bool,
	pub nommap: bool,
	pub params: serde_json::Map<String, J>,
}

pub const EPIPE: i32 = 32;
pub const ENOSPC: i32 = 28;
pub const EIO: i32 = 5;

fn rp_to_json(p: &Option<ReadPlan>) -> J {
	match p {
		None => J::Null,
		Some(p) => json!({"sched": crate::scenario::sched_to_json(&p.sched), "fail": p.fail.map(|(a, e)| json!([a, e])), "eintr": p.eintr}),
	}
}

fn rp_from_json(j: &J) -> Option<ReadPlan> {
	if j.is_null() {
		return None;
	}
	Some(ReadPlan {
		sched: crate::scenario::sched_from_json(&j["sched"]).unwrap_or_default(),
		fail: j["fail"].as_array().map(|a| (a[0].as_u64().unwrap_or(0) as usize, a[1].as_i64().unwrap_or(5) as i32)),
		eintr: j["eintr"].as_array().map(|a| a.iter().filter_map(|x| x.as_u64().map(|v| v as u32)).collect()).unwrap_or_default(),
	})
}

impl ProcCase {
	pub fn to_json(&self) -> J {
		json!({
			"kind": "proc",
			"bin": self.bin,
			"args": self.args,
			"files": self.files.iter().map(|f| json!({"name": f.name, "kind": f.kind, "hex": hex(&f.bytes), "preview": crate::scenario::preview(&f.bytes, 80), "plan": rp_to_json(&f.plan)})).collect::<Vec<_>>(),
			"stdin": self.stdin.as_ref().map(|b| hex(b)),
			"stdin_plan": rp_to_json(&self.stdin_plan),
			"stdin_skip": self.stdin_skip,
			"out": {"sched": crate::scenario::sched_to_json(&self.wsched), "fail": self.wfail.map(|(a, e)| json!([a, e])), "eintr": self.weintr},
			"tty": self.tty,
			"nommap": self.nommap,
			"params": J::Object(self.params.clone()),
		})
	}

	pub fn from_json(j: &J) -> Option<ProcCase> {
		let mut files = vec![];
		for f in j["files"].as_array()? {
			files.push(FileSpec { name: f["name"].as_str()?.to_owned(), kind: f["kind"].as_str()?.to_owned(), bytes: unhex(f["hex"].as_str()?)?, plan: rp_from_json(&f["plan"]) });
		}
		Some(ProcCase {
			bin: j["bin"].as_str()?.to_owned(),
			args: j["args"].as_array()?.iter().filter_map(|a| a.as_str().map(str::to_owned)).collect(),
			files,
			stdin: j["stdin"].as_str().and_then(unhex),
			stdin_plan: rp_from_json(&j["stdin_plan"]),
			stdin_skip: j["stdin_skip"].as_u64().unwrap_or(0) as usize,
			wsched: crate::scenario::sched_from_json(&j["out"]["sched"]).unwrap_or_default(),
			wfail: j["out"]["fail"].as_array().map(|a| (a[0].as_u64().unwrap_or(0) as usize, a[1].as_i64().unwrap_or(5) as i32)),
			weintr: j["out"]["eintr"].as_array().map(|a| a.iter().filter_map(|x| x.as_u64().map(|v| v as u32)).collect()).unwrap_or_default(),
			tty: j["tty"].as_bool().unwrap_or(false),
			nommap: j["nommap"].as_bool().unwrap_or(false),
			params: j["params"].as_object().cloned().unwrap_or_default(),
		})
	}
}

#[derive(Debug, Default)]
pub struct ProcOutcome {
	pub code: Option<i32>,
	pub signal: Option<i32>,
	pub timeout: bool,
	pub stdout: Vec<u8>,
	pub stderr: Vec<u8>,
	pub log: Vec<String>,
	pub spawn_error: Option<String>,
}

impl ProcOutcome {
	pub fn status(&self) -> String {
		if self.timeout {
			"timeout".into()
		} else if let Some(s) = self.signal {
			format!("signal {s}")
		} else {
			format!("exit {}", self.code.unwrap_or(-1))
		}
	}
	/// Names of inputs whose bytes were read (from the interposer log).
	pub fn reads_of(&self, name_suffix: &str) -> usize {
		self.log.iter().filter(|l| l.starts_with("R ") && l.split(' ').nth(2).is_some_and(|n| n.ends_with(name_suffix))).count()
	}
	pub fn any_input_read(&self) -> bool {
		self.log.iter().any(|l| l.starts_with("R ") || l.starts_with("M "))
	}
	pub fn fd1_writes(&self) -> usize {
		self.log.iter().filter(|l| l.starts_with("W ")).count()
	}
}

thread_local! {
	static RUN_SEQ: RefCell<u64> = const { RefCell::new(0) };
}

fn sched_line(s: &Sched) -> String {
	let mut l = String::new();
	if !s.list.is_empty() {
		l.push_str("sched");
		for n in &s.list {
			l.push_str(&format!(" {n}"));
		}
		l.push('\n');
		l.push_str(&format!("cycle {}\n", u8::from(s.cycle)));
	}
	l
}

fn read_plan_text(p: &ReadPlan) -> String {
	let mut t = sched_line(&p.sched);
	if let Some((k, e)) = p.fail {
		t.push_str(&format!("fail {k} {e}\n"));
	}
	if !p.eintr.is_empty() {
		t.push_str(&format!("eintr {}\n", p.eintr.iter().map(u32::to_string).collect::<Vec<_>>().join(" ")));
	}
	t
}

pub fn bin_path(bin: &str) -> String {
	format!("{BUILD_DIR}/xt-target/{}/xt", if bin == "release" { "release" } else { "debug" })
}

/// Runs the case: one real child process under the interposer.
pub fn run(case: &ProcCase) -> ProcOutcome {
	let seq = RUN_SEQ.with(|s| {
		*s.borrow_mut() += 1;
		*s.borrow()
	});
	let dir = format!("{BUILD_DIR}/runs/{}-{}", std::process::id(), seq % 4);
	let _ = std::fs::remove_dir_all(&dir);
	let work = format!("{dir}/w");
	if let Err(e) = std::fs::create_dir_all(&work) {
		return ProcOutcome { spawn_error: Some(format!("mkdir {work}: {e}")), ..Default::default() };
	}
	let mut plan = String::new();
	// Output side.
	let o = sched_line(&case.wsched);
	for l in o.lines() {
		plan.push_str(&format!("out {l}\n"));
	}
	if let Some((k, e)) = case.wfail {
		plan.push_str(&format!("out fail {k} {e}\n"));
	}
	if !case.weintr.is_empty() {
		plan.push_str(&format!("out eintr {}\n", case.weintr.iter().map(u32::to_string).collect::<Vec<_>>().join(" ")));
	}
	plan.push_str(&format!("tty {}\nnommap {}\n", u8::from(case.tty), u8::from(case.nommap)));
	for f in &case.files {
		let path = format!("{work}/{}", f.name);
		match f.kind.as_str() {
			"dir" => {
				let _ = std::fs::create_dir_all(&path);
			}
			"missing" => {}
			_ => {
				if let Some(parent) = std::path::Path::new(&path).parent() {
					let _ = std::fs::create_dir_all(parent);
				}
				if let Err(e) = std::fs::write(&path, &f.bytes) {
					return ProcOutcome { spawn_error: Some(format!("write {path}: {e}")), ..Default::default() };
				}
			}
		}
		if let Some(p) = &f.plan {
			plan.push_str(&format!("in {path}\n{}", read_plan_text(p)));
		}
	}
	if let Some(p) = &case.stdin_plan {
		plan.push_str(&format!("in stdin\n{}", read_plan_text(p)));
	}
	let plan_path = format!("{dir}/plan");
	let log_path = format!("{dir}/log");
	let _ = std::fs::write(&plan_path, plan);
	let stdin_path = format!("{dir}/stdin.bin");
	{
		// "consumed" prefix: a header line of the kind a shell loop reads before handing over
		let mut content: Vec<u8> = b"# header consumed by the caller: {\"not\": [\"for xt\"]}\n".iter().copied().cycle().take(case.stdin_skip).collect();
		content.extend_from_slice(case.stdin.as_deref().unwrap_or(&[]));
		let _ = std::fs::write(&stdin_path, content);
	}
	let (out_path, err_path) = (format!("{dir}/stdout.bin"), format!("{dir}/stderr.bin"));
	let open = |p: &str| std::fs::File::create(p);
	let (Ok(fo), Ok(fe), Ok(mut fi)) = (open(&out_path), open(&err_path), std::fs::File::open(&stdin_path)) else {
		return ProcOutcome { spawn_error: Some("cannot open stdio files".into()), ..Default::default() };
	};
	if case.stdin_skip > 0 {
		use std::io::Seek;
		let _ = fi.seek(std::io::SeekFrom::Start(case.stdin_skip as u64));
	}
	let mut cmd = Command::new(bin_path(&case.bin));
	cmd.arg0("xt").args(&case.args).current_dir(&work).env_clear().env("LD_PRELOAD", format!("{BUILD_DIR}/libxtsim_io.so")).env("XTSIM_PLAN", &plan_path).env("XTSIM_LOG", &log_path).env("LC_ALL", "C").stdin(Stdio::from(fi)).stdout(Stdio::from(fo)).stderr(Stdio::from(fe));
	// SAFETY: only async-signal-safe libc calls between fork and exec.
	unsafe {
		cmd.pre_exec(|| {
			let lim = libc::rlimit { rlim_cur: 8 << 20, rlim_max: 8 << 20 };
			libc::setrlimit(libc::RLIMIT_STACK, &lim);
			let core = libc::rlimit { rlim_cur: 0, rlim_max: 0 };
			libc::setrlimit(libc::RLIMIT_CORE, &core);
			Ok(())
		});
	}
	let mut child = match cmd.spawn() {
		Ok(c) => c,
		Err(e) => return ProcOutcome { spawn_error: Some(format!("spawn {}: {e}", bin_path(&case.bin))), ..Default::default() },
	};
	let t0 = Instant::now();
	let mut out = ProcOutcome::default();
	loop {
		match child.try_wait() {
			Ok(Some(st)) => {
				out.code = st.code();
				out.signal = st.signal();
				break;
			}
			Ok(None) => {
				if t0.elapsed() > Duration::from_secs(60) {
					let _ = child.kill();
					let _ = child.wait();
					out.timeout = true;
					break;
				}
				std::thread::sleep(Duration::from_micros(300));
			}
			Err(e) => {
				out.spawn_error = Some(format!("wait: {e}"));
				break;
			}
		}
	}
	out.stdout = std::fs::read(&out_path).unwrap_or_default();
	out.stderr = std::fs::read(&err_path).unwrap_or_default();
	out.log = std::fs::read_to_string(&log_path).unwrap_or_default().lines().map(|l| l.replace(&format!("{work}/"), "")).collect();
	let _ = std::fs::remove_dir_all(&dir);
	out
}

// ------------------------------------------------------------------ the CLI reference model

#[derive(Debug, Clone, PartialEq)]
pub enum Class {
	/// Invalid command line: exit 2, usage on stderr, nothing on stdout, nothing read.
	Usage,
	Help,
	Version,
	/// A valid command line; `also_usage` when an invalid token follows a help/version request (either exit is accepted).
	Run,
}

#[derive(Debug, Clone)]
pub struct Parsed {
	pub class: Class,
	/// help/version seen before an invalid token, or vice versa: both exits acceptable.
	pub ambiguous: bool,
	pub from: Option<Fmt>,
	pub to: Fmt,
	pub inputs: Vec<String>,
}

/// Executable model of xt's documented command line (lexopt conventions).
pub fn parse_args(args: &[String]) -> Parsed {
	let mut from: Option<Fmt> = None;
	let mut to: Option<Fmt> = None;
	let mut inputs = vec![];
	let mut i = 0;
	let mut only_values = false;
	let mut result: Option<Class> = None;
	let mut ambiguous = false;
	let mut note = |c: Class, result: &mut Option<Class>, ambiguous: &mut bool| match result {
		None => *result = Some(c),
		Some(prev) => {
			if *prev != c {
				*ambiguous = true;
			}
		}
	};
	let fmt_of = |s: &str| -> Option<Fmt> {
		match s {
			"j" | "json" => Some(Fmt::Json),
			"m" | "msgpack" => Some(Fmt::Msgpack),
			"t" | "toml" => Some(Fmt::Toml),
			"y" | "yaml" => Some(Fmt::Yaml),
			_ => None,
		}
	};
	while i < args.len() {
		let a = &args[i];
		i += 1;
		if only_values || a == "-" || !a.starts_with('-') {
			inputs.push(a.clone());
			continue;
		}
		if a == "--" {
			only_values = true;
			continue;
		}
		if let Some(long) = a.strip_prefix("--") {
			let name = long.split('=').next().unwrap_or("");
			match name {
				"help" => note(Class::Help, &mut result, &mut ambiguous),
				"version" => note(Class::Version, &mut result, &mut ambiguous),
				_ => note(Class::Usage, &mut result, &mut ambiguous),
			}
			continue;
		}
		// short cluster
		let chars: Vec<char> = a[1..].chars().collect();
		let mut k = 0;
		while k < chars.len() {
			let c = chars[k];
			k += 1;
			match c {
				'f' | 't' => {
					let slot = if c == 'f' { &mut from } else { &mut to };
					if slot.is_some() {
						note(Class::Usage, &mut result, &mut ambiguous);
					}
					let rest: String = chars[k..].iter().collect();
					k = chars.len();
					let value = if !rest.is_empty() {
						Some(rest.strip_prefix('=').map(str::to_owned).unwrap_or(rest))
					} else if i < args.len() {
						i += 1;
						Some(args[i - 1].clone())
					} else {
						None
					};
					match value.as_deref().and_then(fmt_of) {
						Some(f) => {
							if slot.is_none() {
								*slot = Some(f);
							}
						}
						None => note(Class::Usage, &mut result, &mut ambiguous),
					}
				}
				'h' => note(Class::Help, &mut result, &mut ambiguous),
				'V' => note(Class::Version, &mut result, &mut ambiguous),
				_ => {
					note(Class::Usage, &mut result, &mut ambiguous);
					k = chars.len();
				}
			}
		}
	}
	Parsed { class: result.unwrap_or(Class::Run), ambiguous, from, to: to.unwrap_or(Fmt::Json), inputs }
}

pub fn extension_format(name: &str) -> Option<Fmt> {
	let base = name.rsplit('/').next().unwrap_or(name);
	// Rust's Path::extension: part after the last '.', unless the name starts with '.' and has no other dot.
	let idx = base.rfind('.')?;
	if idx == 0 {
		return None;
	}
	match base[idx + 1..].to_ascii_lowercase().as_str() {
		"json" => Some(Fmt::Json),
		"msgpack" => Some(Fmt::Msgpack),
		"toml" => Some(Fmt::Toml),
		"yaml" | "yml" => Some(Fmt::Yaml),
		_ => None,
	}
}

#[derive(Debug, Default)]
pub struct Expect {
	/// Expected exit code of a run (0 all translated, 1 some failure).
	pub exit: i32,
	/// Complete output of every input before the failing one (or of all inputs).
	pub complete: Vec<u8>,
	/// `complete` followed by everything the failing input produced before it failed.
	pub maximal: Vec<u8>,
	/// Index (into the input list) and display name of the failing input, if any.
	pub failing: Option<(usize, String)>,
	pub failure_kind: String,
	/// Whether stdin may be read at all.
	pub stdin_inputs: usize,
	pub lib_panic: Option<String>,
}

/// What the library produces for the run the command line describes.
pub fn expect_run(case: &ProcCase, p: &Parsed) -> Expect {
	let mut ex = Expect::default();
	if case.tty && p.to == Fmt::Msgpack {
		ex.exit = 1;
		ex.failure_kind = "tty-guard".into();
		return ex;
	}
	let inputs: Vec<String> = if p.inputs.is_empty() { vec!["-".to_owned()] } else { p.inputs.clone() };
	let log = Rc::new(RefCell::new(Log { counting_only: true, ..Log::default() }));
	let out = SharedVec::default();
	let mut stdin_used = false;
	let mut complete_len: Option<usize> = None;
	{
		let mut translator = xt::Translator::new(out.clone(), p.to.xt());
		for (idx, name) in inputs.iter().enumerate() {
			let before = out.0.borrow().len();
			let mut fail = |ex: &mut Expect, kind: &str| {
				ex.exit = 1;
				ex.failing = Some((idx, if name == "-" { "standard input".to_owned() } else { name.clone() }));
				ex.failure_kind = kind.to_owned();
				complete_len = Some(before);
			};
			let (bytes, plan, is_stdin): (Vec<u8>, Option<ReadPlan>, bool) = if name == "-" {
				if stdin_used {
					fail(&mut ex, "stdin-twice");
					break;
				}
				stdin_used = true;
				ex.stdin_inputs += 1;
				(case.stdin.clone().unwrap_or_default(), case.stdin_plan.clone(), true)
			} else {
				match case.files.iter().find(|f| f.name == *name) {
					Some(f) if f.kind == "file" => (f.bytes.clone(), f.plan.clone(), false),
					Some(f) if f.kind == "dir" => {
						fail(&mut ex, "directory");
						break;
					}
					_ => {
						fail(&mut ex, "missing");
						break;
					}
				}
			};
			let from = p.from.or_else(|| if is_stdin { None } else { extension_format(name) });
			let as_reader = is_stdin || case.nommap;
			let v = if as_reader {
				let rfault = plan.as_ref().and_then(|pl| pl.fail).map(|(at, _)| RFault { at, kind: "Other".into() });
				// The model's producer follows the same read schedule the interposer imposes
				// (outcomes may legitimately depend on it where C02 is violated, e.g. F11);
				// standard input additionally sits behind std's own 8 KiB BufReader.
				let sched = plan.as_ref().map_or_else(Sched::whole, |pl| pl.sched.clone());
				let eintr = plan.as_ref().map(|pl| pl.eintr.clone()).unwrap_or_default();
				let rd = SimReader::new(0, Rc::new(bytes.clone()), sched, rfault, eintr, None, log.clone());
				if is_stdin {
					let rd = std::io::BufReader::with_capacity(8192, rd);
					guarded(|| translator.translate_reader(rd, from.map(Fmt::xt)).map_err(|e| e.to_string()))
				} else {
					guarded(|| translator.translate_reader(rd, from.map(Fmt::xt)).map_err(|e| e.to_string()))
				}
			} else {
				guarded(|| translator.translate_slice(&bytes, from.map(Fmt::xt)).map_err(|e| e.to_string()))
			};
			match v {
				Verdict::Ok => {}
				Verdict::Err(e) => {
					fail(&mut ex, &format!("translate: {e}"));
					break;
				}
				Verdict::Panic(p) => {
					ex.lib_panic = Some(p);
					fail(&mut ex, "panic");
					break;
				}
			}
		}
	}
	let all = out.0.borrow().clone();
	ex.complete = all[..complete_len.unwrap_or(all.len())].to_vec();
	ex.maximal = all;
	ex
}

/// A cloneable in-memory writer (the model's stand-in for stdout).
#[derive(Clone, Default)]
pub struct SharedVec(pub Rc<RefCell<Vec<u8>>>);

impl Write for SharedVec {
	fn write(&mut self, b: &[u8]) -> std::io::Result<usize> {
		self.0.borrow_mut().extend_from_slice(b);
		Ok(b.len())
	}
	fn flush(&mut self) -> std::io::Result<()> {
		Ok(())
	}
}

pub fn write_plan_note(ev: &mut Eval, case: &ProcCase, o: &ProcOutcome) {
	ev.execs += 1;
	ev.events += o.log.len() as u64;
	ev.count("p.shortwrite", u64::from(!case.wsched.is_whole() && o.fd1_writes() > 0));
	ev.count("p.nommap", u64::from(case.nommap && o.log.iter().any(|l| l.starts_with("M ") && l.ends_with("denied"))));
	ev.count("p.tty", u64::from(case.tty));
	if let Some((_, e)) = case.wfail {
		let fired = o.log.iter().any(|l| l.starts_with("W ") && l.split(' ').nth(2) == Some("-1") && l.split(' ').nth(3) == Some(&e.to_string()));
		ev.count(
			match e {
				EPIPE => "p.epipe.fired",
				ENOSPC => "p.enospc.fired",
				_ => "p.eio.fired",
			},
			u64::from(fired),
		);
	}
	ev.count("p.shortread", u64::from(o.log.iter().filter(|l| l.starts_with("R ")).count() > 2));
	ev.count("p.readfail.fired", u64::from(o.log.iter().any(|l| l.starts_with("R ") && l.contains(" -1 5 "))));
	ev.count("bin.debug", u64::from(case.bin != "release"));
	ev.count("bin.release", u64::from(case.bin == "release"));
}

/// Invariants every spawn of every process-level check enforces (C04, CLI half).
pub fn proc_invariants(ev: &mut Eval, case: &ProcCase, o: &ProcOutcome) -> bool {
	if let Some(e) = &o.spawn_error {
		ev.violate("harness/spawn", format!("HARNESS: {e}"));
		return false;
	}
	if o.timeout {
		ev.violate(format!("global/proc-timeout/{}", case.bin), format!("xt {:?} did not exit within 60 s", case.args));
		return false;
	}
	if let Some(s) = o.signal {
		if s != 13 {
			ev.violate(format!("global/proc-signal-{s}/{}", case.bin), format!("xt {:?} was killed by signal {s}; stderr: {:?}", case.args, crate::scenario::preview(&o.stderr, 200)));
			return false;
		}
	}
	let err = String::from_utf8_lossy(&o.stderr);
	if err.contains("panicked at") || err.contains("RUST_BACKTRACE") {
		ev.violate(format!("global/proc-panic/{}", case.bin), format!("xt {:?} printed a panic message: {:?}", case.args, crate::scenario::preview(&o.stderr, 300)));
		return false;
	}
	true
}

pub fn flush_stdout_note() {
	let _ = std::io::stdout().flush();
}


// ------------------------------------------------------------------ fidelity runs (the real thing instead of the stub)

/// What replaces the interposer in a fidelity run.
pub enum Real {
	/// stdout is a real pipe whose reader takes `k` bytes and then closes.
	ClosingPipe(usize),
	/// stdout is /dev/full.
	DevFull,
	/// stdout is a real pseudo-terminal.
	Pty,
	/// The named input file is a real FIFO fed by a writer thread in pieces of `chunk` bytes.
	Fifo(String, usize),
}

fn prepare(case: &ProcCase, tag: &str) -> Option<(String, String)> {
	let seq = RUN_SEQ.with(|s| {
		*s.borrow_mut() += 1;
		*s.borrow()
	});
	let dir = format!("{BUILD_DIR}/runs/{}-{tag}-{}", std::process::id(), seq % 4);
	let _ = std::fs::remove_dir_all(&dir);
	let work = format!("{dir}/w");
	std::fs::create_dir_all(&work).ok()?;
	for f in &case.files {
		let path = format!("{work}/{}", f.name);
		if let Some(parent) = std::path::Path::new(&path).parent() {
			let _ = std::fs::create_dir_all(parent);
		}
		match f.kind.as_str() {
			"dir" => {
				let _ = std::fs::create_dir_all(&path);
			}
			"missing" => {}
			_ => std::fs::write(&path, &f.bytes).ok()?,
		}
	}
	std::fs::write(format!("{dir}/stdin.bin"), case.stdin.as_deref().unwrap_or(&[])).ok()?;
	Some((dir, work))
}

/// Runs the case against the real kernel objects (no interposer).
pub fn run_real(case: &ProcCase, real: &Real) -> ProcOutcome {
	use std::io::Read;
	use std::os::fd::{FromRawFd, OwnedFd};
	let Some((dir, work)) = prepare(case, "real") else {
		return ProcOutcome { spawn_error: Some("cannot prepare run directory".into()), ..Default::default() };
	};
	let err_path = format!("{dir}/stderr.bin");
	let out_path = format!("{dir}/stdout.bin");
	let mut cmd = Command::new(bin_path(&case.bin));
	cmd.arg0("xt").args(&case.args).current_dir(&work).env_clear().env("LC_ALL", "C");
	let Ok(fe) = std::fs::File::create(&err_path) else { return ProcOutcome { spawn_error: Some("stderr file".into()), ..Default::default() } };
	let Ok(fi) = std::fs::File::open(format!("{dir}/stdin.bin")) else { return ProcOutcome { spawn_error: Some("stdin file".into()), ..Default::default() } };
	cmd.stdin(Stdio::from(fi)).stderr(Stdio::from(fe));
	let mut master: Option<std::fs::File> = None;
	let mut fifo_writer: Option<std::thread::JoinHandle<()>> = None;
	let mut fifo_stop: Option<std::sync::Arc<std::sync::atomic::AtomicBool>> = None;
	match real {
		Real::ClosingPipe(_) => {
			cmd.stdout(Stdio::piped());
		}
		Real::DevFull => {
			let Ok(f) = std::fs::OpenOptions::new().write(true).open("/dev/full") else { return ProcOutcome { spawn_error: Some("/dev/full".into()), ..Default::default() } };
			cmd.stdout(Stdio::from(f));
		}
		Real::Pty => {
			// SAFETY: plain libc calls on fds we own.
			unsafe {
				let m = libc::posix_openpt(libc::O_RDWR | libc::O_NOCTTY);
				if m < 0 || libc::grantpt(m) != 0 || libc::unlockpt(m) != 0 {
					return ProcOutcome { spawn_error: Some("posix_openpt failed".into()), ..Default::default() };
				}
				let mut name = [0 as libc::c_char; 128];
				if libc::ptsname_r(m, name.as_mut_ptr(), name.len()) != 0 {
					return ProcOutcome { spawn_error: Some("ptsname_r failed".into()), ..Default::default() };
				}
				let s = libc::open(name.as_ptr(), libc::O_RDWR | libc::O_NOCTTY);
				if s < 0 {
					return ProcOutcome { spawn_error: Some("cannot open pty slave".into()), ..Default::default() };
				}
				cmd.stdout(Stdio::from(OwnedFd::from_raw_fd(s)));
				master = Some(std::fs::File::from_raw_fd(m));
			}
		}
		Real::Fifo(name, chunk) => {
			let path = format!("{work}/{name}");
			let _ = std::fs::remove_file(&path);
			let Ok(cpath) = std::ffi::CString::new(path.clone()) else { return ProcOutcome { spawn_error: Some("fifo path".into()), ..Default::default() } };
			// SAFETY: valid NUL-terminated path.
			if unsafe { libc::mkfifo(cpath.as_ptr(), 0o600) } != 0 {
				return ProcOutcome { spawn_error: Some("mkfifo failed".into()), ..Default::default() };
			}
			let bytes = case.files.iter().find(|f| f.name == *name).map(|f| f.bytes.clone()).unwrap_or_default();
			let chunk = (*chunk).max(1);
			let stop = std::sync::Arc::new(std::sync::atomic::AtomicBool::new(false));
			fifo_stop = Some(stop.clone());
			fifo_writer = Some(std::thread::spawn(move || {
				use std::os::unix::fs::OpenOptionsExt;
				// Opening a FIFO for writing blocks until a reader exists; xt may never open it
				// (usage error, earlier failure), so poll without blocking until told to stop.
				let mut w = loop {
					match std::fs::OpenOptions::new().write(true).custom_flags(libc::O_NONBLOCK).open(&path) {
						Ok(f) => break f,
						Err(_) => {
							if stop.load(std::sync::atomic::Ordering::SeqCst) {
								return;
							}
							std::thread::sleep(Duration::from_micros(300));
						}
					}
				};
				let mut rest: &[u8] = &bytes;
				let mut piece_left = chunk.min(rest.len());
				while !rest.is_empty() {
					match w.write(&rest[..piece_left.max(1).min(rest.len())]) {
						Ok(n) => {
							rest = &rest[n..];
							piece_left = if piece_left > n { piece_left - n } else { chunk };
						}
						Err(e) if e.kind() == std::io::ErrorKind::WouldBlock => {
							if stop.load(std::sync::atomic::Ordering::SeqCst) {
								return;
							}
							std::thread::sleep(Duration::from_micros(200));
						}
						Err(_) => return, // reader went away
					}
				}
			}));
			let Ok(fo) = std::fs::File::create(&out_path) else { return ProcOutcome { spawn_error: Some("stdout file".into()), ..Default::default() } };
			cmd.stdout(Stdio::from(fo));
		}
	}
	// SAFETY: only async-signal-safe libc calls between fork and exec.
	unsafe {
		cmd.pre_exec(|| {
			let lim = libc::rlimit { rlim_cur: 8 << 20, rlim_max: 8 << 20 };
			libc::setrlimit(libc::RLIMIT_STACK, &lim);
			let core = libc::rlimit { rlim_cur: 0, rlim_max: 0 };
			libc::setrlimit(libc::RLIMIT_CORE, &core);
			Ok(())
		});
	}
	let mut child = match cmd.spawn() {
		Ok(c) => c,
		Err(e) => return ProcOutcome { spawn_error: Some(format!("spawn: {e}")), ..Default::default() },
	};
	drop(cmd); // closes our copies of the child's stdio (pty slave)
	let mut out = ProcOutcome::default();
	if let Real::ClosingPipe(k) = real {
		if let Some(mut so) = child.stdout.take() {
			let mut all = vec![];
			let mut chunk = [0u8; 8192];
			while all.len() < *k {
				let want = (*k - all.len()).min(chunk.len());
				match so.read(&mut chunk[..want]) {
					Ok(0) | Err(_) => break,
					Ok(n) => all.extend_from_slice(&chunk[..n]),
				}
			}
			out.stdout = all;
			drop(so); // the consumer goes away
		}
	}
	let mut pty_reader = master.map(|mut m| {
		std::thread::spawn(move || {
			let mut all = vec![];
			let mut buf = [0u8; 4096];
			loop {
				match m.read(&mut buf) {
					Ok(0) | Err(_) => break,
					Ok(n) => all.extend_from_slice(&buf[..n]),
				}
			}
			all
		})
	});
	let t0 = Instant::now();
	loop {
		match child.try_wait() {
			Ok(Some(st)) => {
				out.code = st.code();
				out.signal = st.signal();
				break;
			}
			Ok(None) => {
				if t0.elapsed() > Duration::from_secs(60) {
					let _ = child.kill();
					let _ = child.wait();
					out.timeout = true;
					break;
				}
				std::thread::sleep(Duration::from_micros(500));
			}
			Err(e) => {
				out.spawn_error = Some(format!("wait: {e}"));
				break;
			}
		}
	}
	if let Some(st) = &fifo_stop {
		st.store(true, std::sync::atomic::Ordering::SeqCst);
	}
	if let Some(h) = fifo_writer.take() {
		let _ = h.join();
	}
	if let Some(h) = pty_reader.take() {
		out.stdout = h.join().unwrap_or_default();
	} else if !matches!(real, Real::ClosingPipe(_)) {
		out.stdout = std::fs::read(&out_path).unwrap_or_default();
	}
	out.stderr = std::fs::read(&err_path).unwrap_or_default();
	let _ = std::fs::remove_dir_all(&dir);
	out
}
