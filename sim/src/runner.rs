//! Orchestration: the parent deals run indices to crash-isolated worker
//! processes, aggregates their results, attributes/minimises/replays
//! violations, runs the determinism sample and writes the evidence file.

use std::collections::{BTreeMap, BTreeSet, HashSet};
use std::io::{BufRead, BufReader, Read, Write};
use std::path::{Path, PathBuf};
use std::process::{Command, Stdio};
use std::sync::atomic::{AtomicU64, Ordering};
use std::sync::Arc;
use std::time::{Duration, Instant};

use serde_json::{json, Value as J};

use crate::known;
use crate::prop::{Eval, PropDef, Tier};
use crate::rng::hash_str;

pub const DEFAULT_SEED: u64 = 20_260_926;
pub const BUILD_DIR: &str = "/verif/.build";

pub fn seed_from_env() -> u64 {
	std::env::var("VERIF_SEED").ok().and_then(|s| s.trim().parse::<i128>().ok()).map_or(DEFAULT_SEED, |v| v as u64)
}

fn env_u64(name: &str) -> Option<u64> {
	std::env::var(name).ok().and_then(|s| s.trim().parse().ok())
}

pub fn n_workers() -> usize {
	env_u64("VERIF_WORKERS").map_or_else(|| std::thread::available_parallelism().map_or(8, |n| n.get()).min(16), |v| v as usize).max(1)
}

fn self_exe() -> PathBuf {
	std::env::current_exe().expect("current_exe")
}

// ------------------------------------------------------------------ worker

/// Runs `f` on a thread with the default main-thread stack size of the CLI (8 MiB).
pub fn on_big_stack<T: Send + 'static>(f: impl FnOnce() -> T + Send + 'static) -> std::thread::JoinHandle<T> {
	std::thread::Builder::new().stack_size(8 << 20).name("sim".into()).spawn(f).expect("spawn sim thread")
}

struct Agg {
	runs: u64,
	execs: u64,
	events: u64,
	nontrivial: u64,
	violations: u64,
	counters: BTreeMap<&'static str, u64>,
	keys: HashSet<u64>,
	traces: HashSet<u64>,
	samples: Vec<J>,
}

/// Worker process: evaluates run indices `start, start+stride, ...` below `runs`
/// (or exactly the indices in `only`). Protocol on stdout, one record per line:
/// `V\t<idx>\t<class>\t<msg>` violation, `T\t<idx>\t<trace>\t<nviol>` determinism
/// sample, `S\t<json>` final statistics.
pub fn worker_main(def: &'static PropDef, tier: Tier, seed: u64, start: u64, stride: u64, runs: u64, only: Option<Vec<u64>>, wid: usize) -> i32 {
	crate::exec::install_panic_hook();
	// An allocation bomb must abort this worker, not exhaust the machine.
	// SAFETY: plain libc call with a valid pointer to an initialised struct.
	if std::env::var_os("XTSIM_NO_RLIMIT").is_none() {
		unsafe {
			let lim = libc::rlimit { rlim_cur: 8 << 30, rlim_max: 8 << 30 };
			libc::setrlimit(libc::RLIMIT_AS, &lim);
		}
	}
	let inflight_dir = format!("{BUILD_DIR}/inflight");
	let _ = std::fs::create_dir_all(&inflight_dir);
	let inflight_path = format!("{inflight_dir}/{}.{}", def.id, wid);
	let current = Arc::new(AtomicU64::new(u64::MAX));
	let progress = Arc::new(AtomicU64::new(0));
	let deadline_wall = env_u64("VERIF_MAX_WALL").unwrap_or(match tier {
		Tier::Quick => 240,
		Tier::Thorough => 3000,
	});
	let t_start = Instant::now();
	let (cur2, prog2) = (current.clone(), progress.clone());
	let sample_every: u64 = 97;
	let handle = on_big_stack(move || {
		let mut agg = Agg { runs: 0, execs: 0, events: 0, nontrivial: 0, violations: 0, counters: BTreeMap::new(), keys: HashSet::new(), traces: HashSet::new(), samples: vec![] };
		let out = std::io::stdout();
		let findings = known::load();
		let indices: Box<dyn Iterator<Item = u64>> = match only {
			Some(v) => Box::new(v.into_iter()),
			None => Box::new((start..runs).step_by(stride as usize)),
		};
		let mut truncated = false;
		for idx in indices {
			if t_start.elapsed().as_secs() > deadline_wall {
				truncated = true;
				break;
			}
			cur2.store(idx, Ordering::SeqCst);
			let _ = std::fs::write(&inflight_path, idx.to_string());
			let case = (def.gen)(seed, idx, tier);
			let ev: Eval = (def.eval)(&case);
			prog2.fetch_add(1, Ordering::SeqCst);
			agg.runs += 1;
			agg.execs += ev.execs;
			agg.events += ev.events;
			for (k, n) in &ev.counters {
				*agg.counters.entry(k).or_insert(0) += n;
			}
			agg.traces.insert(ev.trace);
			if ev.nontrivial {
				agg.nontrivial += 1;
				agg.keys.insert(ev.key);
			}
			if agg.samples.len() < 2 && (ev.nontrivial || idx % 1000 == 999) {
				agg.samples.push(compact_case(&case));
			}
			// Attribute each violation instance to an open known finding, or report it.
			let mut lines: Vec<String> = vec![];
			for v in &ev.violations {
				agg.violations += 1;
				let class = v.class.replace(['\t', '\n'], " ");
				match known::attribute_in_process(def, &findings, &case, &v.class) {
					Some(fid) => lines.push(format!("K\t{idx}\t{fid}\t{class}")),
					None => lines.push(format!("V\t{idx}\t{class}\t{}", v.msg.replace(['\t', '\n'], " "))),
				}
			}
			let mut o = out.lock();
			for l in &lines {
				let _ = writeln!(o, "{l}");
			}
			if idx % sample_every == 0 || stride == 0 {
				let _ = writeln!(o, "T\t{idx}\t{:016x}\t{}", ev.trace ^ ev.key, ev.violations.len());
			}
		}
		let _ = std::fs::remove_file(&inflight_path);
		// Distinct keys/traces go to a side file (may be large).
		let keys_path = format!("{BUILD_DIR}/inflight/{}.{}.{}.keys", def.id, wid, std::process::id());
		let mut buf = Vec::with_capacity((agg.keys.len() + agg.traces.len()) * 8 + 16);
		buf.extend_from_slice(&(agg.keys.len() as u64).to_le_bytes());
		for k in &agg.keys {
			buf.extend_from_slice(&k.to_le_bytes());
		}
		for k in &agg.traces {
			buf.extend_from_slice(&k.to_le_bytes());
		}
		let _ = std::fs::write(&keys_path, buf);
		let counters: serde_json::Map<String, J> = agg.counters.iter().map(|(k, v)| ((*k).to_owned(), json!(v))).collect();
		let s = json!({"runs": agg.runs, "execs": agg.execs, "events": agg.events, "nontrivial": agg.nontrivial, "violations": agg.violations,
			"counters": counters, "samples": agg.samples, "keys_file": keys_path, "truncated": truncated});
		let mut o = out.lock();
		let _ = writeln!(o, "S\t{s}");
		let _ = o.flush();
	});
	// Watchdog: no progress for `watchdog_s` seconds => report hang and die.
	let mut last = (0u64, Instant::now());
	loop {
		if handle.is_finished() {
			return match handle.join() {
				Ok(()) => 0,
				Err(_) => {
					// A panic outside the guarded calls into xt: a bug of the harness itself.
					let msg = crate::exec::LAST_PANIC_GLOBAL.lock().ok().and_then(|g| g.clone()).unwrap_or_default();
					println!("X\t{}\t{}", current.load(Ordering::SeqCst), msg.replace(['\t', '\n'], " "));
					4
				}
			};
		}
		std::thread::sleep(Duration::from_millis(100));
		let p = progress.load(Ordering::SeqCst);
		if p != last.0 {
			last = (p, Instant::now());
		} else if last.1.elapsed().as_secs() >= def.watchdog_s {
			let idx = current.load(Ordering::SeqCst);
			let out = std::io::stdout();
			let mut o = out.lock();
			let _ = writeln!(o, "H\t{idx}");
			let _ = o.flush();
			std::process::exit(3);
		}
	}
}

fn compact_case(case: &J) -> J {
	// Shorten long hex strings for evidence samples.
	fn walk(j: &J) -> J {
		match j {
			J::String(s) if s.len() > 160 => J::String(format!("{}...(+{} chars)", &s[..160], s.len() - 160)),
			J::Array(a) if a.len() > 24 => {
				let mut v: Vec<J> = a.iter().take(24).map(walk).collect();
				v.push(J::String(format!("...(+{} items)", a.len() - 24)));
				J::Array(v)
			}
			J::Array(a) => J::Array(a.iter().map(walk).collect()),
			J::Object(o) => J::Object(o.iter().map(|(k, v)| (k.clone(), walk(v))).collect()),
			other => other.clone(),
		}
	}
	walk(case)
}

// ------------------------------------------------------------------ isolated evaluation

#[derive(Debug, Clone)]
pub struct IsoResult {
	pub violations: Vec<(String, String)>,
	/// "exit", "signal:<n>", "hang"
	pub status: String,
	pub trace: String,
}

/// Evaluates one case in a fresh process (so that a stack overflow, abort or
/// CPU loop is observed rather than suffered).
pub fn eval_isolated(def: &PropDef, case: &J, tag: &str) -> IsoResult {
	eval_isolated_with(def, case, tag, &Exe::normal())
}

pub fn eval_isolated_with(def: &PropDef, case: &J, tag: &str, exe: &Exe) -> IsoResult {
	let dir = format!("{BUILD_DIR}/iso");
	let _ = std::fs::create_dir_all(&dir);
	let path = format!("{dir}/{}-{}-{}.json", def.id, std::process::id(), tag);
	std::fs::write(&path, serde_json::to_vec(&json!({"property": def.id, "case": case})).unwrap()).expect("write iso case");
	let mut cmd = Command::new(&exe.path);
	for (k, v) in &exe.env {
		cmd.env(k, v);
	}
	let mut child = cmd.arg("eval-case").arg(&path).stdout(Stdio::piped()).stderr(Stdio::null()).spawn().expect("spawn eval-case");
	let mut out = String::new();
	let mut stdout = child.stdout.take().unwrap();
	let reader = std::thread::spawn(move || {
		let mut s = String::new();
		let _ = stdout.read_to_string(&mut s);
		s
	});
	let t0 = Instant::now();
	let status;
	loop {
		match child.try_wait() {
			Ok(Some(st)) => {
				use std::os::unix::process::ExitStatusExt;
				status = match st.signal() {
					Some(sig) => format!("signal:{sig}"),
					None => "exit".to_owned(),
				};
				break;
			}
			Ok(None) => {
				if t0.elapsed().as_secs() > def.watchdog_s + 5 {
					let _ = child.kill();
					let _ = child.wait();
					status = "hang".to_owned();
					break;
				}
				std::thread::sleep(Duration::from_millis(2));
			}
			Err(_) => {
				status = "exit".to_owned();
				break;
			}
		}
	}
	if let Ok(s) = reader.join() {
		out = s;
	}
	let _ = std::fs::remove_file(&path);
	let mut violations = vec![];
	let mut trace = String::new();
	for line in out.lines() {
		let p: Vec<&str> = line.splitn(3, '\t').collect();
		if p.len() == 3 && p[0] == "V" {
			violations.push((p[1].to_owned(), p[2].to_owned()));
		}
		if p.len() >= 2 && p[0] == "T" {
			trace = p[1].to_owned();
		}
	}
	if status.starts_with("signal") {
		violations.push((format!("crash/{status}"), format!("worker process died with {status} while evaluating the case")));
	} else if status == "hang" {
		violations.push(("hang/watchdog".to_owned(), "no progress within the wall-clock watchdog".to_owned()));
	}
	IsoResult { violations, status, trace }
}

/// Child side of `eval_isolated`.
pub fn eval_case_main(def: &'static PropDef, case: J) -> i32 {
	crate::exec::install_panic_hook();
	let h = on_big_stack(move || {
		let ev = (def.eval)(&case);
		let out = std::io::stdout();
		let mut o = out.lock();
		for v in &ev.violations {
			let _ = writeln!(o, "V\t{}\t{}", v.class.replace(['\t', '\n'], " "), v.msg.replace(['\t', '\n'], " "));
		}
		let _ = writeln!(o, "T\t{:016x}", ev.trace ^ ev.key);
		let _ = o.flush();
		ev.violations.len()
	});
	match h.join() {
		Ok(0) => 0,
		Ok(_) => 1,
		Err(_) => {
			let msg = crate::exec::LAST_PANIC_GLOBAL.lock().ok().and_then(|g| g.clone()).unwrap_or_default();
			println!("X\t0\t{msg}");
			4
		}
	}
}

// ------------------------------------------------------------------ minimisation

/// Greedy shrinking: accept a candidate whenever a violation of the same class persists.
pub fn minimise(def: &PropDef, case: &J, class: &str, budget: Duration, exe: &Exe) -> (J, u32) {
	let t0 = Instant::now();
	let mut cur = case.clone();
	let mut steps = 0u32;
	let mut tried: u32 = 0;
	'outer: loop {
		let cands = (def.shrink)(&cur);
		for c in cands {
			if t0.elapsed() > budget || tried > 4000 {
				break 'outer;
			}
			tried += 1;
			let r = eval_isolated_with(def, &c, "min", exe);
			if r.violations.iter().any(|(cl, _)| cl == class) {
				cur = c;
				steps += 1;
				continue 'outer;
			}
		}
		break;
	}
	(cur, steps)
}

// ------------------------------------------------------------------ parent

struct WorkerOut {
	known: Vec<(u64, String, String)>,
	violations: Vec<(u64, String, String)>,
	samples_t: Vec<(u64, String)>,
	stats: Option<J>,
	hang: Option<u64>,
	harness_panic: Option<String>,
	status: String,
}

#[derive(Clone)]
pub struct Exe {
	pub path: PathBuf,
	pub env: Vec<(String, String)>,
}

impl Exe {
	pub fn normal() -> Exe {
		Exe { path: self_exe(), env: vec![] }
	}
	pub fn asan() -> Exe {
		Exe {
			path: PathBuf::from(format!("{BUILD_DIR}/asan-target/x86_64-unknown-linux-gnu/release/xtsim")),
			// Leaks are decided per run by the counting-allocator oracle of the ordinary pass.
			env: vec![("ASAN_OPTIONS".into(), "abort_on_error=1:detect_leaks=0:allocator_may_return_null=1".into()), ("XTSIM_NO_RLIMIT".into(), "1".into())],
		}
	}
}

fn spawn_worker(def: &PropDef, tier: Tier, seed: u64, start: u64, stride: u64, runs: u64, only: Option<&[u64]>, wid: usize, exe: &Exe) -> std::thread::JoinHandle<WorkerOut> {
	let mut cmd = Command::new(&exe.path);
	for (k, v) in &exe.env {
		cmd.env(k, v);
	}
	cmd.arg("worker").arg(def.id).arg(tier.name()).arg(seed.to_string()).arg(start.to_string()).arg(stride.to_string()).arg(runs.to_string()).arg(wid.to_string());
	if let Some(list) = only {
		cmd.arg(list.iter().map(u64::to_string).collect::<Vec<_>>().join(","));
	}
	cmd.stdout(Stdio::piped()).stderr(Stdio::null()).stdin(Stdio::null());
	let mut child = cmd.spawn().expect("spawn worker");
	std::thread::spawn(move || {
		let stdout = child.stdout.take().unwrap();
		let mut wo = WorkerOut { known: vec![], violations: vec![], samples_t: vec![], stats: None, hang: None, harness_panic: None, status: String::new() };
		for line in BufReader::new(stdout).lines() {
			let Ok(line) = line else { break };
			let p: Vec<&str> = line.splitn(4, '\t').collect();
			match p.first().copied() {
				Some("K") if p.len() == 4 => wo.known.push((p[1].parse().unwrap_or(0), p[2].to_owned(), p[3].to_owned())),
				Some("V") if p.len() == 4 => wo.violations.push((p[1].parse().unwrap_or(0), p[2].to_owned(), p[3].to_owned())),
				Some("T") if p.len() >= 3 => wo.samples_t.push((p[1].parse().unwrap_or(0), format!("{}/{}", p[2], p.get(3).unwrap_or(&"")))),
				Some("S") if p.len() >= 2 => wo.stats = serde_json::from_str(&line[2..]).ok(),
				Some("H") if p.len() >= 2 => wo.hang = p[1].parse().ok(),
				Some("X") if p.len() >= 2 => wo.harness_panic = Some(format!("harness panic while evaluating run {}: {}", p[1], p.get(2).unwrap_or(&""))),
				_ => {}
			}
		}
		use std::os::unix::process::ExitStatusExt;
		wo.status = match child.wait() {
			Ok(st) => match (st.signal(), st.code()) {
				(Some(sig), _) => format!("signal:{sig}"),
				(None, Some(c)) => format!("exit:{c}"),
				_ => "exit:?".into(),
			},
			Err(e) => format!("wait-error:{e}"),
		};
		wo
	})
}

pub struct CheckOpts {
	pub tier: Tier,
	pub seed: u64,
	pub runs_override: Option<u64>,
}

pub fn write_replay(def: &PropDef, class: &str, msg: &str, seed: u64, idx: Option<u64>, case: &J, steps: u32, original: Option<&J>) -> String {
	let dir = format!("/verif/replays/{}", def.id);
	let _ = std::fs::create_dir_all(&dir);
	let path = format!("{dir}/{:016x}.json", hash_str(class));
	let mut doc = json!({"property": def.id, "class": class, "message": msg, "seed": seed, "idx": idx, "minimise_steps": steps, "case": case,
		"replay": format!("/verif/check {} --replay {}", def.id, path)});
	if let Some(o) = original {
		if steps > 0 {
			doc["original_case"] = compact_case(o);
		}
	}
	std::fs::write(&path, serde_json::to_vec_pretty(&doc).unwrap()).expect("write replay");
	path
}

/// Runs a full check. Returns the process exit code (0 held, 1 violation, 2 harness fault).
pub fn check_main(def: &'static PropDef, opts: &CheckOpts) -> i32 {
	let t0 = Instant::now();
	let tier = opts.tier;
	let seed = opts.seed;
	let runs = opts.runs_override.or_else(|| env_u64("VERIF_RUNS")).unwrap_or_else(|| (def.runs)(tier));
	let nw = n_workers().min(runs.max(1) as usize);
	let _ = std::fs::create_dir_all(format!("{BUILD_DIR}/inflight"));
	println!("check {} tier={} seed={} runs={} workers={}", def.id, tier.name(), seed, runs, nw);

	// Known findings: run the witnesses first.
	let kf = known::load();
	let mut known_lines: Vec<String> = vec![];
	let mut viol_lines: Vec<(String, String)> = vec![];
	let mut harness_faults: Vec<String> = vec![];
	for f in kf.iter().filter(|f| f.property == def.id) {
		let Some(case) = &f.witness else { continue };
		let r = eval_isolated(def, case, "kf");
		let fails = !r.violations.is_empty();
		match (f.status.as_str(), fails) {
			("open", true) => known_lines.push(format!("KNOWN-FINDING: property={} {} [{}]", def.id, f.title, f.id)),
			("open", false) => println!("note: witness of open finding {} no longer fails", f.id),
			("fixed", true) => {
				let (cl, msg) = r.violations[0].clone();
				let path = write_replay(def, &format!("regression/{}/{}", f.id, cl), &msg, seed, None, case, 0, None);
				viol_lines.push((format!("regression of fixed finding {}: {}", f.id, msg), path));
			}
			_ => {}
		}
	}

	// Passes: the ordinary build, and for C17 the same run indices under AddressSanitizer.
	let mut passes: Vec<(&str, Exe, u64)> = vec![("", Exe::normal(), runs)];
	let mut pass_info: Vec<J> = vec![];
	if def.id == "C17" {
		let asan = Exe::asan();
		if asan.path.exists() {
			passes.push(("asan/", asan, crate::props::c17::asan_runs(tier).min(runs)));
		} else {
			harness_faults.push(format!("AddressSanitizer build of the simulator is missing ({})", asan.path.display()));
		}
	}
	let mut all_viol: Vec<(u64, String, String)> = vec![];
	let mut t_samples: BTreeMap<u64, String> = BTreeMap::new();
	let mut stats: Vec<J> = vec![];
	let mut crashes = 0u64;
	let mut known_hit: BTreeMap<String, u64> = BTreeMap::new();
	for (prefix, exe, pass_runs) in &passes {
		let t_pass = Instant::now();
		let pass_runs = *pass_runs;
		let nw = nw.min(pass_runs.max(1) as usize);
		let mut pending: Vec<(usize, u64)> = (0..nw).map(|w| (w, w as u64)).collect();
		let mut rounds = 0;
		let mut pass_crashes = 0u64;
		let mut pass_done = 0u64;
		while !pending.is_empty() && rounds < 200 {
			rounds += 1;
			let handles: Vec<(usize, u64, _)> = pending.drain(..).map(|(w, start)| (w, start, spawn_worker(def, tier, seed, start, nw as u64, pass_runs, None, w, exe))).collect();
			for (w, start, h) in handles {
				let wo = h.join().expect("worker reader thread");
				all_viol.extend(wo.violations.into_iter().map(|(i, c, m)| (i, format!("{prefix}{c}"), m)));
				for (_, fid, _) in &wo.known {
					*known_hit.entry(fid.clone()).or_insert(0) += 1;
				}
				if prefix.is_empty() {
					for (i, t) in wo.samples_t {
						t_samples.insert(i, t);
					}
				}
				let clean = wo.status == "exit:0" && wo.stats.is_some();
				if let Some(s) = wo.stats {
					pass_done += s["runs"].as_u64().unwrap_or(0);
					stats.push(s);
				}
				if let Some(hp) = &wo.harness_panic {
					harness_faults.push(hp.clone());
				} else if !clean {
					// The worker died: attribute to the in-flight run index and resume after it.
					let inflight = wo.hang.or_else(|| std::fs::read_to_string(format!("{BUILD_DIR}/inflight/{}.{}", def.id, w)).ok().and_then(|s| s.trim().parse().ok()));
					match inflight {
						Some(idx) if idx >= start => {
							pass_crashes += 1;
							let class = if wo.hang.is_some() { format!("{prefix}hang/watchdog") } else { format!("{prefix}crash/{}", wo.status.replace("exit:", "exit-")) };
							all_viol.push((idx, class, format!("worker died ({}) while evaluating run {idx}", wo.status)));
							// A few crashes/hangs are evidence enough; do not spend the budget on dozens.
							let limit = if wo.hang.is_some() { 4 } else { 48 };
							if idx + (nw as u64) < pass_runs && pass_crashes < limit {
								pending.push((w, idx + nw as u64));
							}
						}
						_ => harness_faults.push(format!("worker {w} ended with {} and no in-flight record", wo.status)),
					}
				}
			}
		}
		crashes += pass_crashes;
		pass_info.push(json!({"pass": if prefix.is_empty() { "ordinary build" } else { "AddressSanitizer build" }, "runs": pass_done, "worker_crashes": pass_crashes, "wall_s": t_pass.elapsed().as_secs_f64()}));
	}
	// Third pass for C17: Miri.
	if def.id == "C17" {
		let t_pass = Instant::now();
		let (mv, mruns, mfaults) = miri_pass(def, tier, seed);
		all_viol.extend(mv);
		harness_faults.extend(mfaults);
		pass_info.push(json!({"pass": "Miri (cargo +nightly miri run, -Zmiri-disable-isolation)", "runs": mruns, "wall_s": t_pass.elapsed().as_secs_f64()}));
	}

	// Aggregate statistics.
	let mut total = json!({"runs": 0u64, "execs": 0u64, "events": 0u64, "nontrivial": 0u64});
	let mut counters: BTreeMap<String, u64> = BTreeMap::new();
	let mut samples: Vec<J> = vec![];
	let mut keys: HashSet<u64> = HashSet::new();
	let mut traces: HashSet<u64> = HashSet::new();
	let mut truncated = false;
	for s in &stats {
		for k in ["runs", "execs", "events", "nontrivial"] {
			total[k] = json!(total[k].as_u64().unwrap() + s[k].as_u64().unwrap_or(0));
		}
		truncated |= s["truncated"].as_bool().unwrap_or(false);
		if let Some(c) = s["counters"].as_object() {
			for (k, v) in c {
				*counters.entry(k.clone()).or_insert(0) += v.as_u64().unwrap_or(0);
			}
		}
		if let Some(a) = s["samples"].as_array() {
			for x in a {
				if samples.len() < 3 {
					samples.push(x.clone());
				}
			}
		}
		if let Some(p) = s["keys_file"].as_str() {
			if let Ok(b) = std::fs::read(p) {
				if b.len() >= 8 {
					let nk = u64::from_le_bytes(b[..8].try_into().unwrap()) as usize;
					for (i, ch) in b[8..].chunks_exact(8).enumerate() {
						let v = u64::from_le_bytes(ch.try_into().unwrap());
						if i < nk {
							keys.insert(v);
						} else {
							traces.insert(v);
						}
					}
				}
				let _ = std::fs::remove_file(p);
			}
		}
	}
	let runs_done = total["runs"].as_u64().unwrap();

	// Determinism sample: re-execute sampled indices in another process and compare.
	let det_idx: Vec<u64> = t_samples.keys().copied().take(400).collect();
	let mut det_checked = 0u64;
	let mut det_mismatch = 0u64;
	if !det_idx.is_empty() {
		let wo = spawn_worker(def, tier, seed, 0, 0, runs, Some(&det_idx), 900, &Exe::normal()).join().expect("det worker");
		for (i, t) in wo.samples_t {
			if let Some(t1) = t_samples.get(&i) {
				det_checked += 1;
				if *t1 != t {
					det_mismatch += 1;
					harness_faults.push(format!("nondeterminism: run {i} gave {t1} then {t}"));
				}
			}
		}
		if let Some(s) = wo.stats {
			if let Some(p) = s["keys_file"].as_str() {
				let _ = std::fs::remove_file(p);
			}
		}
	}

	// Violations: group by class, attribute to known findings, minimise, replay.
	all_viol.sort();
	let n_viol_total = all_viol.len();
	let mut by_class: BTreeMap<String, (u64, String, u64)> = BTreeMap::new();
	for (idx, class, msg) in &all_viol {
		by_class.entry(class.clone()).and_modify(|e| e.2 += 1).or_insert((*idx, msg.clone(), 1));
	}
	let mut reported = 0;
	let mut unattributed = 0u64;
	if !by_class.is_empty() {
		println!("violation classes ({}):", by_class.len());
		for (class, (idx, _, count)) in by_class.iter().take(80) {
			println!("  x{count:<6} first run {idx:<8} {class}");
		}
	}
	for (class, (first_idx, first_msg, count)) in &by_class {
		if class.starts_with("harness/") {
			// The stub and the real thing disagree, or a spawn failed: not a verdict about xt.
			harness_faults.push(format!("[{class}] x{count} (first run {first_idx}): {first_msg}"));
			continue;
		}
		let unattr = Some(*first_idx);
		let Some(idx) = unattr else { continue };
		unattributed += count;
		if reported >= 6 {
			continue;
		}
		reported += 1;
		let _ = first_idx;
		let case = (def.gen)(seed, idx, tier);
		// Confirm in a fresh process before reporting.
		if class.starts_with("miri/") {
			// Found by the interpreter only: the replay file carries the case; replay runs it under Miri again.
			let path = write_replay(def, class, first_msg, seed, Some(idx), &case, 0, None);
			viol_lines.push((format!("[{class}] x{count}: {first_msg}"), path));
			continue;
		}
		let exe = if class.starts_with("asan/") { Exe::asan() } else { Exe::normal() };
		let bare = class.strip_prefix("asan/").unwrap_or(class).to_owned();
		let class_full = class;
		let class = &bare;
		let r = eval_isolated_with(def, &case, "confirm", &exe);
		if !r.violations.iter().any(|(cl, _)| cl == class) && class.starts_with("real/") {
			// Seen in a fidelity run against a real kernel object (a pipe whose reader leaves):
			// when xt misbehaves, the outcome of such a run can depend on kernel timing, which
			// the simulator does not own. Not reportable as a violation (it does not replay);
			// a harness fault unless replayable violations tell the story anyway.
			harness_faults.push(format!("[harness/fidelity-unreplayable] class '{class}' of run {idx} (real kernel object) did not replay in a fresh process: {first_msg}"));
			continue;
		}
		if !r.violations.iter().any(|(cl, _)| cl == class) {
			harness_faults.push(format!("violation class '{class}' of run {idx} did not replay in a fresh process ({:?})", r.violations.iter().map(|v| &v.0).collect::<Vec<_>>()));
			continue;
		}
		let budget = if std::env::var_os("VERIF_NO_MINIMISE").is_some() { 0 } else if tier == Tier::Quick { 20 } else { 60 };
		let (min_case, steps) = minimise(def, &case, class, Duration::from_secs(budget), &exe);
		let r2 = eval_isolated_with(def, &min_case, "final", &exe);
		let msg = r2.violations.iter().find(|(cl, _)| cl == class).map_or(first_msg.clone(), |(_, m)| m.clone());
		let path = write_replay(def, class_full, &msg, seed, Some(idx), &min_case, steps, Some(&case));
		viol_lines.push((format!("[{class_full}] x{count}: {msg}"), path));
	}
	for (fid, n) in &known_hit {
		if let Some(f) = kf.iter().find(|f| &f.id == fid) {
			let line = format!("KNOWN-FINDING: property={} {} [{}]", def.id, f.title, f.id);
			if !known_lines.contains(&line) {
				known_lines.push(line);
			}
			println!("note: {n} violation instance(s) attributed to known finding {fid}");
		}
	}

	// Evidence.
	let wall = t0.elapsed().as_secs_f64();
	let probes_zero: Vec<&str> = def.expected_probes.iter().copied().filter(|p| counters.get(*p).copied().unwrap_or(0) == 0).collect();
	let counters_j: serde_json::Map<String, J> = counters.iter().map(|(k, v)| (k.clone(), json!(v))).collect();
	if samples.is_empty() {
		samples.push(compact_case(&(def.gen)(seed, 0, tier)));
	}
	let evidence = json!({
		"property_id": def.id,
		"tier": tier.name(),
		"seed": seed as i64,
		"level": def.level,
		"wall_s": wall,
		"violations": viol_lines.len(),
		"assumptions": def.assumptions,
		"coverage": {
			"evaluations": runs_done + crashes,
			"distinct_nontrivial": keys.len(),
			"rule": def.rule,
			"samples": samples,
			"exhaustive": false,
			"runs_planned": runs,
			"runs_truncated_by_wall_clock": truncated,
			"xt_executions": total["execs"],
			"runs_per_hour": if wall > 0.0 { (runs_done as f64 / wall * 3600.0) as u64 } else { 0 },
			"seeds_per_hour_note": "every run index derives its own PRNG state from (VERIF_SEED, property, index): runs per hour = derived seeds per hour",
			"sim_events": total["events"],
			"sim_time_note": "xt has no clock; simulated time is the global sequence number of I/O events (reads, writes, flushes, call boundaries)",
			"nontrivial_runs": total["nontrivial"],
			"distinct_traces": traces.len(),
			"faults_and_probes": J::Object(counters_j),
			"probes_zero": probes_zero,
			"components": {"real": def.real, "stub": def.stub},
			"determinism_sample": {"checked": det_checked, "mismatches": det_mismatch},
			"worker_crashes": crashes,
			"passes": pass_info,
			"violation_instances": n_viol_total,
			"violation_instances_unattributed": unattributed,
			"known_findings_hit": known_hit,
		}
	});
	let _ = std::fs::create_dir_all("/verif/evidence");
	let ev_path = format!("/verif/evidence/{}.json", def.id);
	std::fs::write(&ev_path, serde_json::to_vec_pretty(&evidence).unwrap()).expect("write evidence");

	for l in &known_lines {
		println!("{l}");
	}
	for (what, path) in &viol_lines {
		println!("violation: {what}");
		println!("VIOLATION property={} replay={}", def.id, path);
	}
	println!(
		"{}: {} runs ({} xt executions, {} events, {} distinct non-trivial, {} distinct traces) in {:.1}s; determinism sample {}/{} ok; evidence {}",
		def.id, runs_done, total["execs"], total["events"], keys.len(), traces.len(), wall, det_checked - det_mismatch, det_checked, ev_path
	);
	if !probes_zero.is_empty() {
		println!("note: probes at zero: {probes_zero:?}");
	}
	// A stub/real disagreement is a harness fault only when nothing else is wrong: if the
	// property is violated, outcomes legitimately depend on the schedule and the two may differ.
	if !viol_lines.is_empty() {
		harness_faults.retain(|h| {
			let fidelity = h.starts_with("[harness/fidelity-");
			if fidelity {
				println!("note (not a harness fault because violations were found): {h}");
			}
			!fidelity
		});
	}
	if !harness_faults.is_empty() {
		for h in &harness_faults {
			println!("HARNESS-FAULT: {h}");
		}
		return 2;
	}
	if runs_done == 0 && viol_lines.is_empty() {
		println!("HARNESS-FAULT: no runs executed");
		return 2;
	}
	if !viol_lines.is_empty() {
		return 1;
	}
	0
}

/// `--replay <file>`: re-executes exactly the scenario of a replay file.
pub fn replay_main(def: &'static PropDef, path: &Path) -> i32 {
	let Ok(bytes) = std::fs::read(path) else {
		println!("cannot read {}", path.display());
		return 2;
	};
	let Ok(doc) = serde_json::from_slice::<J>(&bytes) else {
		println!("cannot parse {}", path.display());
		return 2;
	};
	let case = doc.get("case").cloned().unwrap_or(doc.clone());
	let want_full = doc.get("class").and_then(J::as_str).unwrap_or("").to_owned();
	if want_full.starts_with("miri/") {
		return miri_replay(def, path);
	}
	let exe = if want_full.starts_with("asan/") { Exe::asan() } else { Exe::normal() };
	let r = eval_isolated_with(def, &case, "replay", &exe);
	let want = doc.get("class").and_then(J::as_str).map(|w| w.strip_prefix("asan/").unwrap_or(w));
	let mut seen: BTreeSet<String> = BTreeSet::new();
	for (cl, msg) in &r.violations {
		if seen.insert(cl.clone()) {
			println!("violation: [{cl}] {msg}");
		}
	}
	println!("trace {}", r.trace);
	let hit = match want {
		Some(w) => r.violations.iter().any(|(c, _)| c == w),
		None => !r.violations.is_empty(),
	};
	if hit {
		println!("VIOLATION property={} replay={}", def.id, path.display());
		1
	} else if !r.violations.is_empty() {
		println!("note: the recorded class {:?} did not reproduce, but other violations did", want);
		println!("VIOLATION property={} replay={}", def.id, path.display());
		1
	} else {
		println!("replay: no violation");
		0
	}
}


// ------------------------------------------------------------------ Miri pass (C17)

fn miri_cmd() -> Command {
	let mut cmd = Command::new("cargo");
	cmd.current_dir("/verif/sim").env("MIRIFLAGS", "-Zmiri-disable-isolation").env("CARGO_NET_OFFLINE", "true").args(["+nightly", "miri", "run", "--offline", "--target-dir", &format!("{BUILD_DIR}/miri-target"), "--"]);
	cmd
}

/// Runs the small C17 run indices (every 4th) under Miri, 16 interpreters in parallel.
fn miri_pass(def: &'static PropDef, tier: Tier, seed: u64) -> (Vec<(u64, String, String)>, u64, Vec<String>) {
	let total = crate::props::c17::miri_runs(tier);
	let mut faults = vec![];
	// Build once (the parallel invocations then only take the lock for a freshness check).
	let warm = miri_cmd().arg("list").stdout(Stdio::null()).stderr(Stdio::piped()).output();
	match warm {
		Ok(o) if o.status.success() => {}
		Ok(o) => {
			faults.push(format!("cargo miri run failed to build: {}", String::from_utf8_lossy(&o.stderr).lines().rev().take(3).collect::<Vec<_>>().join(" | ")));
			return (vec![], 0, faults);
		}
		Err(e) => {
			faults.push(format!("cannot start cargo miri: {e}"));
			return (vec![], 0, faults);
		}
	}
	let par = n_workers().min(16) as u64;
	let per = total.div_ceil(par);
	let mut handles = vec![];
	for w in 0..par {
		let (from, to) = (w * per * 4, ((w + 1) * per).min(total) * 4);
		if from >= to {
			continue;
		}
		handles.push(std::thread::spawn(move || {
			let out = miri_cmd().args(["miri-run", "C17", &seed.to_string(), &from.to_string(), &to.to_string(), "4"]).stdin(Stdio::null()).output();
			(from, out)
		}));
	}
	let mut viol = vec![];
	let mut done = 0u64;
	for h in handles {
		let Ok((from, out)) = h.join() else { continue };
		let Ok(out) = out else {
			faults.push("miri interpreter could not be started".into());
			continue;
		};
		let stdout = String::from_utf8_lossy(&out.stdout).into_owned();
		let stderr = String::from_utf8_lossy(&out.stderr).into_owned();
		done += stdout.lines().filter(|l| l.starts_with("DONE ")).count() as u64;
		let last_run: u64 = stdout.lines().filter_map(|l| l.strip_prefix("RUN ")).filter_map(|x| x.trim().parse().ok()).last().unwrap_or(from);
		for l in stdout.lines() {
			let p: Vec<&str> = l.splitn(4, '\t').collect();
			if p.len() == 4 && p[0] == "V" {
				viol.push((p[1].parse().unwrap_or(last_run), format!("miri/{}", p[2]), p[3].to_owned()));
			}
		}
		if !out.status.success() && !stdout.lines().any(|l| l.starts_with("V\t")) {
			let first = stderr.lines().find(|l| l.starts_with("error")).unwrap_or("interpreter exited with an error").to_owned();
			let kind = if first.contains("Undefined Behavior") { "undefined-behavior" } else if first.contains("leak") { "leak" } else { "error" };
			viol.push((last_run, format!("miri/{kind}"), format!("run {last_run} under Miri: {first}")));
		}
	}
	let _ = def;
	(viol, done, faults)
}

fn miri_replay(def: &'static PropDef, path: &Path) -> i32 {
	let out = miri_cmd().arg("miri-case").arg(path).stdin(Stdio::null()).output();
	let Ok(out) = out else {
		println!("cannot start cargo miri");
		return 2;
	};
	let stderr = String::from_utf8_lossy(&out.stderr);
	let stdout = String::from_utf8_lossy(&out.stdout);
	for l in stdout.lines().filter(|l| l.starts_with("V\t")) {
		println!("violation: {l}");
	}
	if let Some(e) = stderr.lines().find(|l| l.starts_with("error")) {
		println!("violation: [miri] {e}");
	}
	if out.status.success() {
		println!("replay: no violation");
		0
	} else {
		println!("VIOLATION property={} replay={}", def.id, path.display());
		1
	}
}
