//! Predicates and neutralising transforms of known findings (see known.rs).
//!
//! `neutralise(rule, prop, case)` returns the case with the known pattern
//! removed if - and only if - the rule's predicate holds for the case.

use serde_json::Value as J;

use crate::scenario::{Fmt, Scenario};

pub fn neutralise(rule: &str, prop: &str, case: &J) -> Option<J> {
	let _ = prop;
	match rule {
		"json_adjacent_scalars" => {
			// Library-level scenarios: every call whose source is JSON or detection.
			let mut sc = Scenario::from_json(case)?;
			let mut changed = false;
			for c in &mut sc.calls {
				if matches!(c.from, Some(Fmt::Json) | None) {
					if let Some(b) = separate_top_level_json_scalars(&c.bytes) {
						c.bytes = b;
						changed = true;
					}
				}
			}
			changed.then(|| sc.to_json())
		}
		"json_repeated_key_to_toml" => {
			// JSON (explicit or detected) with a repeated object key, TOML target.
			let mut sc = Scenario::from_json(case)?;
			if sc.to != Fmt::Toml {
				return None;
			}
			let mut changed = false;
			for c in &mut sc.calls {
				if matches!(c.from, Some(Fmt::Json) | None) {
					if let Some(b) = drop_repeated_json_keys(&c.bytes) {
						c.bytes = b;
						changed = true;
					}
				}
			}
			changed.then(|| sc.to_json())
		}
		"yaml_detection_depends_on_lookahead" => {
			// Detection (no format named) of text that contains a character YAML forbids
			// (C0/C1 controls other than TAB/LF/CR/NEL, U+FFFE/U+FFFF) somewhere after the
			// part the YAML trial needs: whether libyaml's reader has already decoded (and
			// rejected) that character when the first document ends depends on how the bytes
			// arrive. Neutralise: replace the forbidden characters.
			let mut sc = Scenario::from_json(case)?;
			let mut changed = false;
			for c in &mut sc.calls {
				if c.from.is_some() {
					continue;
				}
				let Ok(text) = std::str::from_utf8(&c.bytes) else { continue };
				let bad = |ch: char| -> bool {
					let u = ch as u32;
					!(u == 0x09 || u == 0x0A || u == 0x0D || (0x20..=0x7E).contains(&u) || u == 0x85 || (0xA0..=0xD7FF).contains(&u) || (0xE000..=0xFFFD).contains(&u) || u >= 0x10000)
				};
				if text.chars().any(bad) {
					c.bytes = text.chars().map(|ch| if bad(ch) { '?' } else { ch }).collect::<String>().into_bytes();
					changed = true;
				}
			}
			if !changed {
				return None;
			}
			let mut j = sc.to_json();
			if let Some(k) = case.get("kind") {
				j["kind"] = k.clone();
			}
			Some(j)
		}
		"msgpack_trial_reads_ahead_on_text" => {
			// C05 only: the stream is handed over WITHOUT a format and starts with a byte that
			// MessagePack reads as the header of an array 16/32 or map 16/32 (0xDC-0xDF: in
			// UTF-8 text the lead byte of U+0700-U+07FF) - the trial then consumes the stream
			// as "elements". Neutralise: name the format the workload built the stream in.
			if prop != "C05" {
				return None;
			}
			let mut sc = Scenario::from_json(case)?;
			let f = sc.params.get("fmt").and_then(J::as_str).and_then(Fmt::parse)?;
			let last = sc.calls.last_mut()?;
			if last.from.is_some() || !matches!(last.bytes.first(), Some(0xdc..=0xdf)) || f == Fmt::Msgpack {
				return None;
			}
			last.from = Some(f);
			Some(sc.to_json())
		}
		"yaml_position_after_flip" => {
			// C09 library runs only: reader supply with detection, YAML selected, both the
			// detected and the explicit run fail, and their texts are equal once
			// line/column/position numbers are removed.
			if prop != "C09" || case["kind"].as_str() != Some("lib") {
				return None;
			}
			let sc = Scenario::from_json(case)?;
			let c = sc.calls.first()?;
			if !c.reader || c.from.is_some() || c.rfault.is_some() {
				return None;
			}
			let o1 = crate::exec::run(&sc);
			let mut s2 = sc.clone();
			s2.calls[0].from = Some(Fmt::Yaml);
			let o2 = crate::exec::run(&s2);
			let (v1, v2) = (o1.verdict(0), o2.verdict(0));
			if !(v1.is_err() && v2.is_err()) || v1.text() == v2.text() || strip_positions(v1.text()) != strip_positions(v2.text()) {
				return None;
			}
			let mut n = sc.clone();
			n.calls[0].reader = false;
			n.calls[0].sched = crate::simio::Sched::whole();
			let mut j = n.to_json();
			j["kind"] = serde_json::json!("lib");
			Some(j)
		}
		_ => None,
	}
}

/// Removes " at line N column M" and " at position N" from an error text.
pub fn strip_positions(t: &str) -> String {
	let mut out = String::new();
	let b: Vec<char> = t.chars().collect();
	let mut i = 0;
	let starts = |i: usize, pat: &str| -> bool { b[i..].iter().take(pat.chars().count()).copied().eq(pat.chars()) };
	let skip_digits = |mut i: usize| -> usize {
		while i < b.len() && b[i].is_ascii_digit() {
			i += 1;
		}
		i
	};
	while i < b.len() {
		if starts(i, " at line ") {
			let j = skip_digits(i + 9);
			if j > i + 9 && starts(j, " column ") {
				let k = skip_digits(j + 8);
				if k > j + 8 {
					i = k;
					continue;
				}
			}
		}
		if starts(i, " at position ") {
			let j = skip_digits(i + 13);
			if j > i + 13 {
				i = j;
				continue;
			}
		}
		out.push(b[i]);
		i += 1;
	}
	out
}

/// Inserts a blank after every top-level JSON scalar (number, true, false,
/// null) that is directly followed by a non-blank byte. Returns None if the
/// input has no such place.
pub fn separate_top_level_json_scalars(b: &[u8]) -> Option<Vec<u8>> {
	let mut out = Vec::with_capacity(b.len() + 4);
	let mut i = 0;
	let mut depth = 0usize;
	let mut changed = false;
	let n = b.len();
	while i < n {
		let c = b[i];
		match c {
			b'"' => {
				let st = i;
				i += 1;
				while i < n {
					match b[i] {
						b'\\' => i += 2,
						b'"' => {
							i += 1;
							break;
						}
						_ => i += 1,
					}
				}
				i = i.min(n);
				out.extend_from_slice(&b[st..i]);
			}
			b'[' | b'{' => {
				depth += 1;
				out.push(c);
				i += 1;
			}
			b']' | b'}' => {
				depth = depth.saturating_sub(1);
				out.push(c);
				i += 1;
			}
			b't' | b'f' | b'n' | b'-' | b'0'..=b'9' if depth == 0 => {
				let len = scalar_len(&b[i..]);
				if len == 0 {
					out.push(c);
					i += 1;
					continue;
				}
				out.extend_from_slice(&b[i..i + len]);
				i += len;
				if i < n && !matches!(b[i], b' ' | b'\n' | b'\t' | b'\r') {
					out.push(b' ');
					changed = true;
				}
			}
			_ => {
				out.push(c);
				i += 1;
			}
		}
	}
	changed.then_some(out)
}

fn scalar_len(b: &[u8]) -> usize {
	for kw in [&b"true"[..], b"false", b"null"] {
		if b.starts_with(kw) {
			return kw.len();
		}
	}
	// JSON number grammar, greedy.
	let mut i = 0;
	let n = b.len();
	if i < n && b[i] == b'-' {
		i += 1;
	}
	if i >= n || !b[i].is_ascii_digit() {
		return 0;
	}
	if b[i] == b'0' {
		i += 1;
	} else {
		while i < n && b[i].is_ascii_digit() {
			i += 1;
		}
	}
	if i + 1 < n && b[i] == b'.' && b[i + 1].is_ascii_digit() {
		i += 1;
		while i < n && b[i].is_ascii_digit() {
			i += 1;
		}
	}
	if i < n && (b[i] == b'e' || b[i] == b'E') {
		let mut j = i + 1;
		if j < n && (b[j] == b'+' || b[j] == b'-') {
			j += 1;
		}
		if j < n && b[j].is_ascii_digit() {
			while j < n && b[j].is_ascii_digit() {
				j += 1;
			}
			i = j;
		}
	}
	i
}


/// If the bytes are a valid JSON stream in which some object repeats a key,
/// returns the stream re-emitted without the earlier duplicates (last wins).
pub fn drop_repeated_json_keys(b: &[u8]) -> Option<Vec<u8>> {
	let text = std::str::from_utf8(b).ok()?;
	let mut values = vec![];
	for v in serde_json::Deserializer::from_str(text).into_iter::<serde_json::Value>() {
		values.push(v.ok()?);
	}
	fn members(v: &serde_json::Value) -> usize {
		match v {
			serde_json::Value::Array(a) => a.iter().map(members).sum(),
			serde_json::Value::Object(o) => o.len() + o.values().map(members).sum::<usize>(),
			_ => 0,
		}
	}
	let kept: usize = values.iter().map(members).sum();
	// Members in the text = ':' tokens outside strings.
	let mut in_str = false;
	let mut esc = false;
	let mut colons = 0usize;
	for &c in b {
		if in_str {
			if esc {
				esc = false;
			} else if c == b'\\' {
				esc = true;
			} else if c == b'"' {
				in_str = false;
			}
		} else if c == b'"' {
			in_str = true;
		} else if c == b':' {
			colons += 1;
		}
	}
	if colons <= kept {
		return None;
	}
	let mut out = vec![];
	for v in &values {
		out.extend_from_slice(serde_json::to_string(v).ok()?.as_bytes());
		out.push(b'\n');
	}
	Some(out)
}
