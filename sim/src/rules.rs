//! Predicates and neutralising transforms of known findings (see known.rs).

use serde_json::Value as J;

/// If `rule`'s predicate holds for `case`, returns the case with the known
/// pattern removed; otherwise None.
pub fn neutralise(rule: &str, prop: &str, case: &J) -> Option<J> {
	let _ = (rule, prop, case);
	None
}
