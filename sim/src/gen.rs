//! Workload generation: model documents, renderings in each format with
//! per-document byte ranges, streams, mutations, token sequences and
//! adversarial shapes. Workload only - never the deciding step.

use crate::exec;
use crate::rng::Rng;
use crate::scenario::Fmt;

#[derive(Clone, Debug, PartialEq)]
pub enum V {
	Null,
	Bool(bool),
	I(i64),
	U(u64),
	F(f64),
	S(String),
	B(Vec<u8>),
	A(Vec<V>),
	M(Vec<(V, V)>),
}

#[derive(Clone, Copy)]
pub struct GenCfg {
	pub max_depth: usize,
	pub max_len: usize,
	pub null: bool,
	pub bytes: bool,
	pub nonstring_keys: bool,
	pub big_u64: bool,
	pub floats: bool,
	pub unicode: bool,
	pub str_max: usize,
}

impl GenCfg {
	/// Values every format pair can carry (except null for TOML).
	pub fn common() -> GenCfg {
		GenCfg { max_depth: 4, max_len: 5, null: true, bytes: false, nonstring_keys: false, big_u64: true, floats: true, unicode: true, str_max: 12 }
	}
	pub fn toml_safe() -> GenCfg {
		GenCfg { null: false, big_u64: false, ..GenCfg::common() }
	}
}

const WORDS: &[&str] = &[
	"a", "b", "key", "name", "x", "id", "yes", "no", "true", "null", "~", "1e3", "0x10", "2001-01-01", "-", "a b", " lead", "trail ", "a: b", "#c", "[x]", "{y}", "it's", "q\"q", "back\\slash", "", "é", "日本", "\u{1F600}", "\u{7ff}", "\u{700}x", "line\nbreak", "tab\there", "\u{feff}bom", "\u{85}", "\u{2028}", "---", "...", "*a", "&a", "!t", "|", ">", "%d", "@", "`", "0", "-0", "1.0", ".5", "+1", "0o7", "Inf", ".nan", "=",
];

pub fn gen_string(r: &mut Rng, cfg: &GenCfg) -> String {
	match r.below(10) {
		0..=4 => (*r.pick(WORDS)).to_owned(),
		5..=7 => {
			let n = r.range(0, cfg.str_max);
			(0..n).map(|_| (b'a' + r.below(26) as u8) as char).collect()
		}
		_ => {
			let n = r.range(0, cfg.str_max.min(8));
			let mut s = String::new();
			for _ in 0..n {
				let c = if !cfg.unicode {
					(0x20 + r.below(0x5f)) as u32
				} else {
					match r.below(8) {
						0 => r.below(0x20) as u32,
						1 => 0x7f + r.below(0x80) as u32,
						2 => 0x700 + r.below(0x100) as u32,
						3 => 0x800 + r.below(0xd000) as u32,
						4 => 0xe000 + r.below(0x2000) as u32,
						5 => 0x10000 + r.below(0x10_0000) as u32,
						_ => 0x20 + r.below(0x5f) as u32,
					}
				};
				s.push(char::from_u32(c).unwrap_or('?'));
			}
			s
		}
	}
}

const INTS: &[i64] = &[
	0, 1, -1, 9, 10, 31, 32, -32, -33, 127, 128, -128, -129, 255, 256, 32767, 32768, -32768, -32769, 65535, 65536, 2147483647, 2147483648, -2147483648, -2147483649, 4294967295, 4294967296, 9007199254740992, 9007199254740993, i64::MAX, i64::MIN, i64::MIN + 1, 9001, -13, 42,
];

const FLOATS: &[f64] = &[0.0, -0.0, 1.0, -1.5, 0.1, 42.1337, 1e21, 1e-7, 1.7976931348623157e308, 5e-324, 2.2250738585072014e-308, 3.0, 1e15, 123456.789, 0.30000000000000004];

pub fn gen_scalar(r: &mut Rng, cfg: &GenCfg) -> V {
	loop {
		match r.below(12) {
			0 if cfg.null => return V::Null,
			1 => return V::Bool(r.chance(1, 2)),
			2 | 3 => return V::I(*r.pick(INTS)),
			4 => return V::I(r.next() as i64 >> r.below(64)),
			5 if cfg.big_u64 => return V::U(if r.chance(1, 2) { u64::MAX } else { (1u64 << 63) + (r.next() >> 1) }),
			6 if cfg.floats => return V::F(*r.pick(FLOATS)),
			7 if cfg.floats => {
				let f = f64::from_bits(r.next());
				if f.is_finite() {
					return V::F(f);
				}
			}
			8 if cfg.bytes => {
				let n = r.range(0, 6);
				return V::B((0..n).map(|_| r.next() as u8).collect());
			}
			9..=11 => return V::S(gen_string(r, cfg)),
			_ => {}
		}
	}
}

pub fn gen_value(r: &mut Rng, cfg: &GenCfg, depth: usize) -> V {
	if depth >= cfg.max_depth || r.chance(2, 5) {
		return gen_scalar(r, cfg);
	}
	if r.chance(1, 2) {
		let n = r.range(0, cfg.max_len);
		V::A((0..n).map(|_| gen_value(r, cfg, depth + 1)).collect())
	} else {
		gen_map(r, cfg, depth)
	}
}

pub fn gen_map(r: &mut Rng, cfg: &GenCfg, depth: usize) -> V {
	let n = r.range(0, cfg.max_len);
	let mut m: Vec<(V, V)> = vec![];
	for _ in 0..n {
		let k = if cfg.nonstring_keys && r.chance(1, 6) {
			match r.below(4) {
				0 => V::I(*r.pick(INTS)),
				1 => V::Bool(r.chance(1, 2)),
				2 if cfg.null => V::Null,
				_ => V::A(vec![V::I(1)]),
			}
		} else {
			V::S(gen_string(r, cfg))
		};
		if m.iter().any(|(k2, _)| *k2 == k) {
			continue;
		}
		m.push((k, gen_value(r, cfg, depth + 1)));
	}
	V::M(m)
}

/// A collection-rooted document.
pub fn gen_doc(r: &mut Rng, cfg: &GenCfg) -> V {
	if r.chance(1, 2) {
		gen_map(r, cfg, 0)
	} else {
		let n = r.range(0, cfg.max_len);
		V::A((0..n).map(|_| gen_value(r, cfg, 1)).collect())
	}
}

// ---------------------------------------------------------------- JSON

fn json_str(out: &mut String, s: &str, r: &mut Rng, vary: bool) {
	out.push('"');
	for c in s.chars() {
		match c {
			'"' => out.push_str("\\\""),
			'\\' => out.push_str("\\\\"),
			'\n' => out.push_str("\\n"),
			'\t' => out.push_str(if vary && r.chance(1, 2) { "\\u0009" } else { "\\t" }),
			'\r' => out.push_str("\\r"),
			c if (c as u32) < 0x20 => out.push_str(&format!("\\u{:04x}", c as u32)),
			'/' if vary && r.chance(1, 2) => out.push_str("\\/"),
			c if vary && r.chance(1, 8) => {
				let mut b = [0u16; 2];
				for u in c.encode_utf16(&mut b) {
					out.push_str(&format!("\\u{:04X}", u));
				}
			}
			c => out.push(c),
		}
	}
	out.push('"');
}

fn ws(out: &mut String, r: &mut Rng, vary: bool) {
	if vary && r.chance(1, 4) {
		out.push_str(*r.pick(&[" ", "\n", "\t", "  ", "\r\n"]));
	}
}

pub fn fmt_f64(f: f64) -> String {
	// Shortest round-trip representation; always marks the value as a float.
	let s = format!("{f:?}");
	if s.contains('.') || s.contains('e') || s.contains("inf") || s.contains("NaN") {
		s
	} else {
		format!("{s}.0")
	}
}

pub fn to_json(v: &V, r: &mut Rng, vary: bool) -> String {
	let mut out = String::new();
	json_into(&mut out, v, r, vary);
	out
}

fn json_key(out: &mut String, k: &V, r: &mut Rng, vary: bool) {
	match k {
		V::S(s) => json_str(out, s, r, vary),
		other => {
			// JSON keys must be strings; stringify (generator configs used for
			// JSON rendering do not produce these).
			let mut tmp = String::new();
			json_into(&mut tmp, other, r, false);
			json_str(out, &tmp, r, false);
		}
	}
}

fn json_into(out: &mut String, v: &V, r: &mut Rng, vary: bool) {
	match v {
		V::Null => out.push_str("null"),
		V::Bool(b) => out.push_str(if *b { "true" } else { "false" }),
		V::I(i) => out.push_str(&i.to_string()),
		V::U(u) => out.push_str(&u.to_string()),
		V::F(f) => {
			if vary && r.chance(1, 4) {
				out.push_str(&format!("{f:e}"));
				if !out.contains('.') && f.fract() == 0.0 {
					// "1e21" is still a float in JSON (exponent marks it).
				}
			} else {
				out.push_str(&fmt_f64(*f));
			}
		}
		V::S(s) => json_str(out, s, r, vary),
		V::B(b) => {
			out.push('[');
			for (i, x) in b.iter().enumerate() {
				if i > 0 {
					out.push(',');
				}
				out.push_str(&x.to_string());
			}
			out.push(']');
		}
		V::A(a) => {
			out.push('[');
			ws(out, r, vary);
			for (i, x) in a.iter().enumerate() {
				if i > 0 {
					out.push(',');
					ws(out, r, vary);
				}
				json_into(out, x, r, vary);
				ws(out, r, vary);
			}
			out.push(']');
		}
		V::M(m) => {
			out.push('{');
			ws(out, r, vary);
			for (i, (k, x)) in m.iter().enumerate() {
				if i > 0 {
					out.push(',');
					ws(out, r, vary);
				}
				json_key(out, k, r, vary);
				ws(out, r, vary);
				out.push(':');
				ws(out, r, vary);
				json_into(out, x, r, vary);
				ws(out, r, vary);
			}
			out.push('}');
		}
	}
}

// ---------------------------------------------------------------- MessagePack

pub fn to_msgpack(v: &V, r: &mut Rng, vary: bool) -> Vec<u8> {
	let mut out = vec![];
	mp_into(&mut out, v, r, vary);
	out
}

fn mp_uint(out: &mut Vec<u8>, u: u64, r: &mut Rng, vary: bool) {
	let min = if u < 128 {
		0
	} else if u <= 0xff {
		1
	} else if u <= 0xffff {
		2
	} else if u <= 0xffff_ffff {
		3
	} else {
		4
	};
	let w = if vary && r.chance(1, 4) { r.range(min, 4) } else { min };
	match w {
		0 => out.push(u as u8),
		1 => {
			out.push(0xcc);
			out.push(u as u8);
		}
		2 => {
			out.push(0xcd);
			out.extend_from_slice(&(u as u16).to_be_bytes());
		}
		3 => {
			out.push(0xce);
			out.extend_from_slice(&(u as u32).to_be_bytes());
		}
		_ => {
			out.push(0xcf);
			out.extend_from_slice(&u.to_be_bytes());
		}
	}
}

fn mp_int(out: &mut Vec<u8>, i: i64, r: &mut Rng, vary: bool) {
	if i >= 0 && !(vary && r.chance(1, 6)) {
		return mp_uint(out, i as u64, r, vary);
	}
	let min = if (-32..0).contains(&i) {
		0
	} else if i >= i64::from(i8::MIN) && i <= i64::from(i8::MAX) {
		1
	} else if i >= i64::from(i16::MIN) && i <= i64::from(i16::MAX) {
		2
	} else if i >= i64::from(i32::MIN) && i <= i64::from(i32::MAX) {
		3
	} else {
		4
	};
	let min = if i >= 0 && min == 0 { 1 } else { min };
	let w = if vary && r.chance(1, 4) { r.range(min, 4) } else { min };
	match w {
		0 => out.push(i as u8),
		1 => {
			out.push(0xd0);
			out.push(i as u8);
		}
		2 => {
			out.push(0xd1);
			out.extend_from_slice(&(i as i16).to_be_bytes());
		}
		3 => {
			out.push(0xd2);
			out.extend_from_slice(&(i as i32).to_be_bytes());
		}
		_ => {
			out.push(0xd3);
			out.extend_from_slice(&i.to_be_bytes());
		}
	}
}

fn mp_len(out: &mut Vec<u8>, n: usize, fix: Option<(u8, usize)>, m8: Option<u8>, m16: u8, m32: u8, r: &mut Rng, vary: bool) {
	let mut min = 3;
	if n <= 0xffff {
		min = 2;
	}
	if m8.is_some() && n <= 0xff {
		min = 1;
	}
	if let Some((_, lim)) = fix {
		if n <= lim {
			min = 0;
		}
	}
	let mut w = if vary && r.chance(1, 4) { r.range(min, 3) } else { min };
	if w == 1 && m8.is_none() {
		w = 2;
	}
	match w {
		0 => out.push(fix.unwrap().0 | n as u8),
		1 => {
			out.push(m8.unwrap());
			out.push(n as u8);
		}
		2 => {
			out.push(m16);
			out.extend_from_slice(&(n as u16).to_be_bytes());
		}
		_ => {
			out.push(m32);
			out.extend_from_slice(&(n as u32).to_be_bytes());
		}
	}
}

fn mp_into(out: &mut Vec<u8>, v: &V, r: &mut Rng, vary: bool) {
	match v {
		V::Null => out.push(0xc0),
		V::Bool(b) => out.push(if *b { 0xc3 } else { 0xc2 }),
		V::I(i) => mp_int(out, *i, r, vary),
		V::U(u) => mp_uint(out, *u, r, vary),
		V::F(f) => {
			out.push(0xcb);
			out.extend_from_slice(&f.to_be_bytes());
		}
		V::S(s) => {
			mp_len(out, s.len(), Some((0xa0, 31)), Some(0xd9), 0xda, 0xdb, r, vary);
			out.extend_from_slice(s.as_bytes());
		}
		V::B(b) => {
			mp_len(out, b.len(), None, Some(0xc4), 0xc5, 0xc6, r, vary);
			out.extend_from_slice(b);
		}
		V::A(a) => {
			mp_len(out, a.len(), Some((0x90, 15)), None, 0xdc, 0xdd, r, vary);
			for x in a {
				mp_into(out, x, r, vary);
			}
		}
		V::M(m) => {
			mp_len(out, m.len(), Some((0x80, 15)), None, 0xde, 0xdf, r, vary);
			for (k, x) in m {
				mp_into(out, k, r, vary);
				mp_into(out, x, r, vary);
			}
		}
	}
}

// ---------------------------------------------------------------- YAML (flow style, own renderer)

fn yaml_dq(out: &mut String, s: &str) {
	out.push('"');
	for c in s.chars() {
		match c {
			'"' => out.push_str("\\\""),
			'\\' => out.push_str("\\\\"),
			'\n' => out.push_str("\\n"),
			'\t' => out.push_str("\\t"),
			'\r' => out.push_str("\\r"),
			'\u{85}' => out.push_str("\\N"),
			'\u{2028}' => out.push_str("\\L"),
			'\u{2029}' => out.push_str("\\P"),
			'\u{feff}' => out.push_str("\\uFEFF"),
			c if (c as u32) < 0x20 || c as u32 == 0x7f || ((c as u32) >= 0x80 && (c as u32) < 0xa0) => out.push_str(&format!("\\u{:04x}", c as u32)),
			c if (c as u32) == 0xfffe || (c as u32) == 0xffff => out.push_str(&format!("\\u{:04x}", c as u32)),
			c => out.push(c),
		}
	}
	out.push('"');
}

/// Simple words of even length are written as plain (unquoted) scalars, so that flow
/// collections are not always valid JSON as well.
fn yaml_plain_ok(s: &str) -> bool {
	s.len() >= 2
		&& s.len() % 2 == 0
		&& s.bytes().all(|b| b.is_ascii_lowercase())
		&& !matches!(s, "true" | "false" | "null" | "yes" | "no" | "on" | "off")
}

pub fn to_yaml_flow(v: &V) -> String {
	let mut out = String::new();
	yaml_flow_into(&mut out, v);
	out
}

fn yaml_flow_into(out: &mut String, v: &V) {
	match v {
		V::Null => out.push_str("null"),
		V::Bool(b) => out.push_str(if *b { "true" } else { "false" }),
		V::I(i) => out.push_str(&i.to_string()),
		V::U(u) => out.push_str(&u.to_string()),
		V::F(f) => out.push_str(&fmt_f64(*f)),
		V::S(s) if yaml_plain_ok(s) => out.push_str(s),
		V::S(s) => yaml_dq(out, s),
		V::B(b) => yaml_flow_into(out, &V::A(b.iter().map(|x| V::I(i64::from(*x))).collect())),
		V::A(a) => {
			out.push('[');
			for (i, x) in a.iter().enumerate() {
				if i > 0 {
					out.push_str(", ");
				}
				yaml_flow_into(out, x);
			}
			out.push(']');
		}
		V::M(m) => {
			out.push('{');
			for (i, (k, x)) in m.iter().enumerate() {
				if i > 0 {
					out.push_str(", ");
				}
				match k {
					V::S(_) | V::I(_) | V::Bool(_) | V::Null | V::U(_) | V::F(_) => yaml_flow_into(out, k),
					_ => {
						out.push_str("? ");
						yaml_flow_into(out, k);
						out.push(' ');
					}
				}
				out.push_str(": ");
				yaml_flow_into(out, x);
			}
			out.push('}');
		}
	}
}

// ---------------------------------------------------------------- rendering through xt (valid block YAML / TOML)

/// Translates one document with xt itself (fault-free) - used to obtain valid
/// block-style YAML and TOML workload text.
pub fn via_xt(bytes: &[u8], from: Fmt, to: Fmt) -> Option<Vec<u8>> {
	let (v, out) = exec::t0(bytes, Some(from), to);
	if v.is_ok() {
		Some(out)
	} else {
		None
	}
}

/// Renders one model document in `f`. Returns None if not representable.
pub fn render(v: &V, f: Fmt, r: &mut Rng, vary: bool) -> Option<Vec<u8>> {
	match f {
		Fmt::Json => Some(to_json(v, r, vary).into_bytes()),
		Fmt::Msgpack => Some(to_msgpack(v, r, vary)),
		Fmt::Yaml => {
			if r.chance(1, 3) {
				Some(to_yaml_flow(v).into_bytes())
			} else {
				let mp = to_msgpack(v, r, false);
				let y = via_xt(&mp, Fmt::Msgpack, Fmt::Yaml)?;
				// xt's YAML output begins with "---\n"; strip it, the stream builder adds separators.
				Some(y.strip_prefix(b"---\n").map(<[u8]>::to_vec).unwrap_or(y))
			}
		}
		Fmt::Toml => {
			let mp = to_msgpack(v, r, false);
			via_xt(&mp, Fmt::Msgpack, Fmt::Toml)
		}
	}
}

/// A stream of documents in one format, with the byte range of each document
/// (range end = first byte that belongs to no earlier document's text, i.e.
/// the point at which a reader positioned there has seen the whole document
/// and its terminator, but nothing of the next document).
#[derive(Clone, Debug, Default)]
pub struct Stream {
	pub bytes: Vec<u8>,
	/// (start, end) of each document's own text within `bytes`.
	pub docs: Vec<(usize, usize)>,
	/// Each document alone, translatable in isolation (with any needed marker).
	pub alone: Vec<Vec<u8>>,
}

pub fn build_stream(docs: &[Vec<u8>], f: Fmt, r: &mut Rng, vary: bool) -> Stream {
	let mut s = Stream::default();
	match f {
		Fmt::Json => {
			for (i, d) in docs.iter().enumerate() {
				if i > 0 || (vary && r.chance(1, 8)) {
					let sep: &str = if vary { *r.pick(&["\n", " ", "\n\n", "\t", "\r\n", " \n "]) } else { "\n" };
					s.bytes.extend_from_slice(sep.as_bytes());
				}
				let st = s.bytes.len();
				s.bytes.extend_from_slice(d);
				s.docs.push((st, s.bytes.len()));
				s.alone.push(d.clone());
			}
			if !docs.is_empty() && (!vary || r.chance(3, 4)) {
				s.bytes.push(b'\n');
			}
		}
		Fmt::Msgpack => {
			for d in docs {
				let st = s.bytes.len();
				s.bytes.extend_from_slice(d);
				s.docs.push((st, s.bytes.len()));
				s.alone.push(d.clone());
			}
		}
		Fmt::Yaml => {
			for (i, d) in docs.iter().enumerate() {
				if vary && r.chance(1, 6) {
					s.bytes.extend_from_slice(b"# comment\n");
				}
				let st = s.bytes.len();
				// The marker of the first document is optional for collection documents.
				let bare_first = i == 0 && vary && r.chance(1, 2) && d.first().is_some_and(|c| matches!(c, b'[' | b'{' | b'-' | b'a'..=b'z' | b'"'));
				if !bare_first {
					s.bytes.extend_from_slice(b"---\n");
				}
				let mut body = d.clone();
				if !body.ends_with(b"\n") {
					body.push(b'\n');
				}
				s.bytes.extend_from_slice(&body);
				if vary && r.chance(1, 5) && i + 1 < docs.len() {
					s.bytes.extend_from_slice(b"...\n");
				}
				s.docs.push((st, s.bytes.len()));
				let mut alone = b"---\n".to_vec();
				alone.extend_from_slice(&body);
				s.alone.push(alone);
			}
			// YAML knows more line breaks than LF: a lone CR, CRLF, NEL, LS and PS. One varied
			// stream in eight uses one of them throughout (old Mac files, mainframe exports).
			if vary && r.chance(1, 8) {
				let style: &[u8] = *r.pick(&[&b"\r"[..], b"\r", b"\r\n", b"\xc2\x85", b"\xe2\x80\xa8", b"\xe2\x80\xa9"]);
				let restyle = |b: &[u8]| -> (Vec<u8>, Vec<usize>) {
					let mut out = Vec::with_capacity(b.len() + 16);
					let mut map = Vec::with_capacity(b.len() + 1);
					for &c in b {
						map.push(out.len());
						if c == b'\n' {
							out.extend_from_slice(style);
						} else {
							out.push(c);
						}
					}
					map.push(out.len());
					(out, map)
				};
				let (nb, map) = restyle(&s.bytes);
				s.docs = s.docs.iter().map(|&(a, e)| (map[a], map[e])).collect();
				s.bytes = nb;
				s.alone = s.alone.iter().map(|a| restyle(a).0).collect();
			}
		}
		Fmt::Toml => {
			if let Some(d) = docs.first() {
				s.bytes.extend_from_slice(d);
				s.docs.push((0, d.len()));
				s.alone.push(d.clone());
			}
		}
	}
	s
}

/// Generates a valid stream of `n` collection-rooted documents in `f`.
pub fn gen_stream(r: &mut Rng, f: Fmt, n: usize, cfg: &GenCfg, vary: bool) -> (Stream, Vec<V>) {
	let mut cfg = *cfg;
	if f == Fmt::Toml {
		cfg.null = false;
		cfg.big_u64 = false;
		cfg.bytes = false;
		cfg.nonstring_keys = false;
	}
	if f == Fmt::Json {
		cfg.bytes = false;
		cfg.nonstring_keys = false;
	}
	let mut vals = vec![];
	let mut docs = vec![];
	let mut tries = 0;
	while docs.len() < n && tries < n * 4 + 8 {
		tries += 1;
		let v = if f == Fmt::Toml { gen_map(r, &cfg, 0) } else { gen_doc(r, &cfg) };
		if let Some(b) = render(&v, f, r, vary) {
			docs.push(b);
			vals.push(v);
		}
		if f == Fmt::Toml && !docs.is_empty() {
			break;
		}
	}
	(build_stream(&docs, f, r, vary), vals)
}

// ---------------------------------------------------------------- mutations

pub fn mutate(r: &mut Rng, b: &mut Vec<u8>, other: &[u8]) {
	let n = r.range(1, 3);
	for _ in 0..n {
		if b.is_empty() {
			b.push(r.next() as u8);
			continue;
		}
		let i = r.usize_below(b.len());
		match r.below(8) {
			0 => b[i] ^= 1 << r.below(8),
			1 => b[i] = r.next() as u8,
			2 => {
				b.remove(i);
			}
			3 => b.insert(i, *r.pick(b"{}[]:,\"'-# \n\t0a\\\x00\x90\x81\xc1\xff")),
			4 => b.truncate(i),
			5 => {
				// duplicate a range
				let j = r.range(i, b.len().min(i + 16));
				let piece = b[i..j].to_vec();
				let at = r.usize_below(b.len() + 1);
				b.splice(at..at, piece);
			}
			6 if !other.is_empty() => {
				// splice from another document
				let oi = r.usize_below(other.len());
				let oj = r.range(oi, other.len().min(oi + 24));
				b.splice(i..i, other[oi..oj].iter().copied());
			}
			_ => {
				let j = r.range(i, b.len().min(i + 8));
				b.drain(i..j);
			}
		}
	}
}

// ---------------------------------------------------------------- token alphabets

pub fn alphabet(f: Fmt) -> Vec<Vec<u8>> {
	let t = |l: &[&str]| l.iter().map(|s| s.as_bytes().to_vec()).collect::<Vec<_>>();
	match f {
		Fmt::Json => t(&["{", "}", "[", "]", ",", ":", "\"a\"", "\"\"", "1", "-1", "1.5", "1e3", "true", "false", "null", " ", "\n", "\"\\u00e9\"", "\"", "x"]),
		Fmt::Yaml => t(&["- ", "a", ": ", "\n", "  ", "---", "...", "#c", "[", "]", "{", "}", ",", "\"", "'", "&x ", "*x", "!t ", "|", ">", "? ", "~", "1", "\t", "%YAML 1.2"]),
		Fmt::Toml => t(&["a", " = ", "1", "\"s\"", "\n", "[", "]", "[[", "]]", ".", "{", "}", ",", "#c", "true", "1979-05-27", "'''", "1.5", " "]),
		Fmt::Msgpack => vec![
			vec![0x90],
			vec![0x91],
			vec![0x92],
			vec![0x80],
			vec![0x81],
			vec![0x82],
			vec![0xc0],
			vec![0xc2],
			vec![0x01],
			vec![0xff],
			vec![0xa1, b'a'],
			vec![0xa0],
			vec![0xc4, 0x01, 0x00],
			vec![0xdc, 0x00, 0x01],
			vec![0xde, 0x00, 0x01],
			vec![0xc1],
			vec![0xd9, 0x01, b'b'],
			vec![0xcc, 0x05],
			vec![0xcb, 0x3f, 0xf0, 0, 0, 0, 0, 0, 0],
			vec![0xd6, 0x01, 0, 0, 0, 0],
			vec![0xc7, 0x01, 0x05, 0x00],
			vec![0xdd, 0x00, 0x00, 0x00, 0x01],
			vec![0xa2, b'a'],
		],
	}
}

/// The `idx`-th token sequence in length-then-lexicographic order, if `idx`
/// is within sequences of length <= `max_len`; the total count otherwise.
pub fn token_seq(alpha: &[Vec<u8>], max_len: usize, mut idx: u64) -> Result<Vec<u8>, u64> {
	let k = alpha.len() as u64;
	let mut total = 0u64;
	let mut count = 1u64;
	for len in 0..=max_len {
		if idx < count {
			let mut out_tokens = vec![0usize; len];
			for slot in (0..len).rev() {
				out_tokens[slot] = (idx % k) as usize;
				idx /= k;
			}
			let mut out = vec![];
			for t in out_tokens {
				out.extend_from_slice(&alpha[t]);
			}
			return Ok(out);
		}
		idx -= count;
		total += count;
		count = count.saturating_mul(k);
	}
	Err(total)
}

pub fn token_seq_count(alpha_len: usize, max_len: usize) -> u64 {
	let mut total = 0u64;
	let mut count = 1u64;
	for _ in 0..=max_len {
		total += count;
		count = count.saturating_mul(alpha_len as u64);
	}
	total
}

pub fn random_tokens(r: &mut Rng, alpha: &[Vec<u8>], n: usize) -> Vec<u8> {
	let mut out = vec![];
	for _ in 0..n {
		let t: &Vec<u8> = r.pick(alpha);
		out.extend_from_slice(t);
	}
	out
}

// ---------------------------------------------------------------- nesting shapes

#[derive(Clone, Copy, Debug, PartialEq, Eq)]
pub enum Shape {
	Arrays,
	Maps,
	Alternating,
	Random,
	/// MessagePack only: collection nested in map-key position.
	Keys,
}

pub const SHAPES: [Shape; 5] = [Shape::Arrays, Shape::Maps, Shape::Alternating, Shape::Random, Shape::Keys];

impl Shape {
	pub fn name(self) -> &'static str {
		match self {
			Shape::Arrays => "arrays",
			Shape::Maps => "maps",
			Shape::Alternating => "alternating",
			Shape::Random => "random",
			Shape::Keys => "keys",
		}
	}
	pub fn parse(s: &str) -> Option<Shape> {
		SHAPES.iter().copied().find(|x| x.name() == s)
	}
}

/// `depth` collections around a scalar, in format `f`. `pattern` supplies the
/// random choice bits for `Shape::Random`.
pub fn nested(f: Fmt, shape: Shape, depth: usize, pattern: u64) -> Vec<u8> {
	let is_map = |lvl: usize| -> bool {
		match shape {
			Shape::Arrays => false,
			Shape::Maps | Shape::Keys => true,
			Shape::Alternating => lvl % 2 == 1,
			Shape::Random => (pattern.rotate_left((lvl % 64) as u32) ^ (lvl as u64).wrapping_mul(0x9E37_79B9)) & 1 == 1,
		}
	};
	let mut out = vec![];
	match f {
		Fmt::Json => {
			for l in 0..depth {
				out.extend_from_slice(if is_map(l) { b"{\"a\":" } else { b"[" });
			}
			out.push(b'1');
			for l in (0..depth).rev() {
				out.push(if is_map(l) { b'}' } else { b']' });
			}
		}
		Fmt::Yaml => {
			// flow style
			for l in 0..depth {
				out.extend_from_slice(if is_map(l) { b"{a: " } else { b"[" });
			}
			out.push(b'1');
			for l in (0..depth).rev() {
				out.push(if is_map(l) { b'}' } else { b']' });
			}
			out.push(b'\n');
		}
		Fmt::Toml => {
			// a = [[[...1...]]] or inline tables
			out.extend_from_slice(b"a = ");
			for l in 0..depth {
				out.extend_from_slice(if is_map(l) { b"{a = " } else { b"[" });
			}
			out.push(b'1');
			for l in (0..depth).rev() {
				out.push(if is_map(l) { b'}' } else { b']' });
			}
			out.push(b'\n');
		}
		Fmt::Msgpack => {
			// Header width per level: all fix, all 16-bit, all 32-bit, or mixed (from the pattern).
			let mode = (pattern >> 60) & 3;
			let width = |lvl: usize| -> u8 {
				match mode {
					0 => 0,
					1 => 1,
					2 => 2,
					_ => ((pattern.rotate_right((lvl % 61) as u32) ^ (lvl as u64).wrapping_mul(0x85EB_CA6B)) % 3) as u8,
				}
			};
			let header = |out: &mut Vec<u8>, map: bool, w: u8| match (map, w) {
				(false, 0) => out.push(0x91),
				(false, 1) => out.extend_from_slice(&[0xdc, 0x00, 0x01]),
				(false, _) => out.extend_from_slice(&[0xdd, 0x00, 0x00, 0x00, 0x01]),
				(true, 0) => out.push(0x81),
				(true, 1) => out.extend_from_slice(&[0xde, 0x00, 0x01]),
				(true, _) => out.extend_from_slice(&[0xdf, 0x00, 0x00, 0x00, 0x01]),
			};
			if shape == Shape::Keys {
				// {{{...1: nil}: nil}: nil}
				for l in 0..depth {
					header(&mut out, true, width(l));
				}
				out.push(0x01);
				for _ in 0..depth {
					out.push(0xc0);
				}
			} else {
				for l in 0..depth {
					if is_map(l) {
						header(&mut out, true, width(l));
						out.push(0xa1);
						out.push(b'a');
					} else {
						header(&mut out, false, width(l));
					}
				}
				out.push(0x01);
			}
		}
	}
	out
}

// ---------------------------------------------------------------- schedules

use crate::simio::Sched;

/// Draws a read/write schedule for `len` bytes.
pub fn gen_sched(r: &mut Rng, len: usize) -> Sched {
	match r.below(10) {
		0 => Sched::whole(),
		1 => Sched::bytes(1),
		2 => Sched::bytes(r.range(2, 9) as u32),
		3 => Sched::bytes(r.log_range(2, 9000) as u32),
		4 | 5 => {
			// random sizes, geometric around a drawn mean
			let mean = r.log_range(1, 4096);
			let mut list = vec![];
			let mut total = 0usize;
			while total < len && list.len() < 20_000 {
				let n = r.geometric(mean);
				list.push(n as u32);
				total += n;
			}
			Sched { list, cycle: true }
		}
		6 => {
			// a few explicit cuts, rest whole
			let k = r.range(1, 4);
			let mut cuts: Vec<usize> = (0..k).map(|_| r.usize_below(len.max(1)) + 1).collect();
			cuts.sort_unstable();
			let mut list = vec![];
			let mut prev = 0;
			for c in cuts {
				if c > prev {
					list.push((c - prev) as u32);
					prev = c;
				}
			}
			Sched { list, cycle: false }
		}
		7 => {
			// tiny first reads then big
			let k = r.range(1, 6);
			Sched { list: (0..k).map(|_| r.range(1, 3) as u32).collect(), cycle: false }
		}
		8 => Sched { list: vec![r.range(1, 5) as u32, r.log_range(1, 20000) as u32], cycle: true },
		_ => Sched::bytes(r.range(8190, 8194) as u32),
	}
}

/// A schedule whose reads end exactly at the given offsets (document ends),
/// optionally shifted by `delta`.
pub fn sched_at_offsets(ends: &[usize], delta: i64) -> Sched {
	let mut list = vec![];
	let mut prev = 0usize;
	for &e in ends {
		let e2 = (e as i64 + delta).max(prev as i64 + 1) as usize;
		if e2 > prev {
			list.push((e2 - prev) as u32);
			prev = e2;
		}
	}
	Sched { list, cycle: false }
}

// ---------------------------------------------------------------- serde view of model values (oracle-side probing)

impl serde::Serialize for V {
	fn serialize<S: serde::Serializer>(&self, s: S) -> Result<S::Ok, S::Error> {
		use serde::ser::{SerializeMap, SerializeSeq};
		match self {
			V::Null => s.serialize_unit(),
			V::Bool(b) => s.serialize_bool(*b),
			V::I(i) => s.serialize_i64(*i),
			V::U(u) => s.serialize_u64(*u),
			V::F(f) => s.serialize_f64(*f),
			V::S(x) => s.serialize_str(x),
			V::B(b) => s.serialize_bytes(b),
			V::A(a) => {
				let mut q = s.serialize_seq(Some(a.len()))?;
				for x in a {
					q.serialize_element(x)?;
				}
				q.end()
			}
			V::M(m) => {
				let mut q = s.serialize_map(Some(m.len()))?;
				for (k, x) in m {
					q.serialize_key(k)?;
					q.serialize_value(x)?;
				}
				q.end()
			}
		}
	}
}


// ---------------------------------------------------------------- buffer-boundary texts

/// A JSON, YAML or TOML document larger than an internal buffer (8 KiB BufReader /
/// BufWriter, 16 KiB libyaml raw buffer) in which a 2-, 3- or 4-byte UTF-8 character
/// starts 0..=4 bytes before a multiple of 8192. Returns the bytes.
pub fn boundary_text(r: &mut Rng, f: Fmt) -> Vec<u8> {
	let boundary = 8192 * r.range(1, 3);
	let back = r.range(0, 4);
	let ch = *r.pick(&["\u{e9}", "\u{7ff}", "\u{65e5}", "\u{ffee}", "\u{1F600}", "\u{10FFFF}", "\u{10000}"]);
	let head: &str = match f {
		Fmt::Json => "{\"t\": {\"k\": \"a: b\"}, \"v\": \"",
		Fmt::Toml => *r.pick(&["[t]\nk = \"a: b\"\nv = \"", "v = \"", "[t]\n# c: d\nv = \""]),
		_ => *r.pick(&["t:\n  k: 'a = b'\nv: \"", "---\nv: \"", "- \""]),
	};
	let tail: &str = match f {
		Fmt::Json => "\"}\n",
		Fmt::Toml => "\"\nw = 1\n",
		_ => "\"\n",
	};
	let start = boundary - back; // offset at which the character starts
	let mut s = String::with_capacity(boundary + 64);
	s.push_str(head);
	while s.len() < start {
		s.push('x');
	}
	s.push_str(ch);
	let extra = r.range(0, 40);
	for _ in 0..extra {
		s.push('y');
	}
	if r.chance(1, 3) {
		// a second one at the next boundary
		while s.len() < start + 8192 {
			s.push('z');
		}
		s.push_str(ch);
	}
	if r.chance(1, 2) {
		// more than a whole 16 KiB buffer of input after the straddling character
		let more = r.range(17_000, 40_000);
		let end = s.len() + more;
		while s.len() < end {
			if r.chance(1, 200) {
				s.push_str(ch);
			} else {
				s.push('w');
			}
		}
	}
	s.push_str(tail);
	s.into_bytes()
}
