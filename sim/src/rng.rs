//! The only source of randomness in the simulator: xoshiro256** seeded through
//! splitmix64. Every choice of a run (workload, schedules, faults, swarm knobs)
//! is drawn from one `Rng` derived from (VERIF_SEED, property tag, run index),
//! in a fixed order. Logging never draws.

#[derive(Clone)]
pub struct Rng {
	s: [u64; 4],
}

fn splitmix(x: &mut u64) -> u64 {
	*x = x.wrapping_add(0x9E37_79B9_7F4A_7C15);
	let mut z = *x;
	z = (z ^ (z >> 30)).wrapping_mul(0xBF58_476D_1CE4_E5B9);
	z = (z ^ (z >> 27)).wrapping_mul(0x94D0_49BB_1331_11EB);
	z ^ (z >> 31)
}

pub fn hash_str(s: &str) -> u64 {
	fnv(s.as_bytes())
}

pub fn fnv(b: &[u8]) -> u64 {
	let mut h: u64 = 0xcbf2_9ce4_8422_2325;
	for &x in b {
		h ^= u64::from(x);
		h = h.wrapping_mul(0x0000_0100_0000_01B3);
	}
	h
}

pub fn mix(a: u64, b: u64) -> u64 {
	let mut x = a ^ b.rotate_left(32) ^ 0x5851_F42D_4C95_7F2D;
	splitmix(&mut x)
}

impl Rng {
	pub fn new(seed: u64) -> Rng {
		let mut x = seed;
		let s = [
			splitmix(&mut x),
			splitmix(&mut x),
			splitmix(&mut x),
			splitmix(&mut x),
		];
		Rng { s }
	}

	/// The generator of run `idx` of the check tagged `tag` under base seed `seed`.
	pub fn derive(seed: u64, tag: &str, idx: u64) -> Rng {
		Rng::new(mix(mix(seed, hash_str(tag)), idx))
	}

	pub fn next(&mut self) -> u64 {
		let r = self.s[1].wrapping_mul(5).rotate_left(7).wrapping_mul(9);
		let t = self.s[1] << 17;
		self.s[2] ^= self.s[0];
		self.s[3] ^= self.s[1];
		self.s[1] ^= self.s[2];
		self.s[0] ^= self.s[3];
		self.s[2] ^= t;
		self.s[3] = self.s[3].rotate_left(45);
		r
	}

	/// Uniform in `0..n` (n > 0).
	pub fn below(&mut self, n: u64) -> u64 {
		debug_assert!(n > 0);
		// Multiply-shift; bias is irrelevant here.
		((u128::from(self.next()) * u128::from(n)) >> 64) as u64
	}

	pub fn usize_below(&mut self, n: usize) -> usize {
		self.below(n as u64) as usize
	}

	/// Uniform in `lo..=hi`.
	pub fn range(&mut self, lo: usize, hi: usize) -> usize {
		debug_assert!(lo <= hi);
		lo + self.below((hi - lo) as u64 + 1) as usize
	}

	pub fn chance(&mut self, num: u64, den: u64) -> bool {
		self.below(den) < num
	}

	pub fn pick<'a, T>(&mut self, items: &'a [T]) -> &'a T {
		&items[self.usize_below(items.len())]
	}

	/// Roughly geometric with the given mean, at least 1.
	pub fn geometric(&mut self, mean: usize) -> usize {
		let mean = mean.max(1) as f64;
		let u = (self.next() >> 11) as f64 / (1u64 << 53) as f64;
		let v = -(1.0 - u).ln() * mean;
		(v as usize).max(1)
	}

	/// Log-uniform in `lo..=hi` (lo >= 1).
	pub fn log_range(&mut self, lo: usize, hi: usize) -> usize {
		let l = (lo.max(1) as f64).ln();
		let h = (hi.max(1) as f64).ln();
		let u = (self.next() >> 11) as f64 / (1u64 << 53) as f64;
		((l + (h - l) * u).exp() as usize).clamp(lo, hi)
	}
}
